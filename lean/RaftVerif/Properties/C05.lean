/-
  Properties/C05.lean — linearizable reads are never stale (section level).

  What the serving path guarantees in every node state, after the three `fix:` commits
  (non-voters do not confirm; a round confirms only reads submitted before it was
  started, and never across terms; the read index covers everything earlier leaders
  committed): a linearizable read is served only by a leader that has committed in its
  term, only after a round of requests *created after the read was registered* collected
  a quorum of voter replies of the current term, and only once the applied prefix covers
  the read index. The real-time argument over cluster runs is tied by E4 (walks with
  reply delays far beyond the election timeout, deposed leaders, non-voters).
-/
import RaftVerif.Proofs.ElectionLemmas
import RaftVerif.Proofs.ReplReadExample
import RaftVerif.Proofs.ReplReadMono
set_option linter.unusedSimpArgs false
namespace Raft
open Node

/-- **Serving conditions.** Whatever `readOnlyStep` serves was pending, is a lease read or
    a verified one, has its read index applied, and the node is a leader that has
    committed an entry of its own term; a lease read is served only under a valid lease. -/
theorem C05_served_requires (n : Node) (now t : Nat) (h : ReadOut.served t ∈ (n.readOnlyStep now).2) :
    n.role = .leader ∧ n.committedThisTerm = some true ∧
    ∃ r ∈ n.pendingReads, r.tag = t ∧ (r.lease = true ∨ r.verified = true) ∧ r.readIndex ≤ n.lastApplied ∧
      (r.lease = true → n.leaseValid now = true) := by
  unfold readOnlyStep at h
  split at h; · simp at h
  rename_i hl
  have hrole : n.role = .leader := Classical.byContradiction fun hh => hl hh
  split at h
  · rename_i hct
    simp only [List.mem_map, List.mem_filter] at h
    obtain ⟨r, ⟨hr, hok⟩, hout⟩ := h
    simp only [Bool.and_eq_true, Bool.or_eq_true, decide_eq_true_eq] at hok
    refine ⟨hrole, hct, r, hr, ?_, hok.1, hok.2, ?_⟩
    · split at hout
      · simp at hout
      · injection hout
    · intro hlease
      split at hout
      · simp at hout
      · rename_i hc
        simp only [hlease, Bool.true_and, Bool.not_eq_true', Bool.not_eq_false] at hc
        exact hc
  · simp at h

/-- **A round confirms only the reads submitted before it.** -/
theorem C05_round_confirms_only_older (n : Node) (now seq : Nat) (r : PendingRead) (hr : r ∈ n.pendingReads)
    (hs : seq < r.seq) : r ∈ (n.tryApplyReadOnly now seq).1.pendingReads := by
  unfold tryApplyReadOnly
  simp only [List.mem_map]
  refine ⟨r, hr, ?_⟩
  have : ¬ r.seq ≤ seq := by omega
  simp [this]

/-- Every replication round remembers at most the number of reads submitted so far. -/
def RoundsBounded (n : Node) : Prop := ∀ x ∈ n.aeRounds, x.2.2 ≤ n.readSeq

theorem roundsBounded_sendAE (n : Node) (now : Nat) (h : RoundsBounded n) : RoundsBounded (n.sendAEToPeers now).1 := by
  obtain ⟨a, b, _⟩ := sendAEToPeers_reads n now
  intro x hx
  rw [b] at hx; rw [a]
  rcases List.mem_cons.mp hx with hx | hx
  · subst hx; exact Nat.le_refl _
  · exact h x hx

theorem roundsBounded_register (n : Node) (tag : Nat) (lease : Bool) (h : RoundsBounded n) :
    RoundsBounded (n.registerRead tag lease).1 := by
  intro x hx
  exact Nat.le_succ_of_le (h x hx)

/-- **A new read is younger than every round in flight**: no round that exists when the
    read is registered can ever confirm it (by `C05_round_confirms_only_older`). -/
theorem C05_new_read_after_all_rounds (n : Node) (tag : Nat) (lease : Bool) (hb : RoundsBounded n) :
    (n.registerRead tag lease).2 ∈ (n.registerRead tag lease).1.pendingReads ∧
    (n.registerRead tag lease).2.verified = false ∧
    ∀ x ∈ n.aeRounds, x.2.2 < (n.registerRead tag lease).2.seq := by
  refine ⟨by simp [registerRead], rfl, fun x hx => ?_⟩
  exact Nat.lt_succ_of_le (hb x hx)

/-- **The read index covers what earlier leaders committed**: it is never below the commit
    index, and until the leader has committed in its own term it is the end of its log. -/
theorem C05_read_index (n : Node) (tag : Nat) (lease : Bool) (hw : n.commitIndex ≤ n.log.lastIndex) :
    n.commitIndex ≤ (n.registerRead tag lease).2.readIndex ∧
    (n.committedThisTerm = some false → (n.registerRead tag lease).2.readIndex = n.log.lastIndex) := by
  unfold registerRead
  simp only
  cases hc : n.committedThisTerm with
  | none => exact ⟨Nat.le_refl _, fun h => by simp at h⟩
  | some b => cases b with
    | true => exact ⟨Nat.le_refl _, fun h => by simp at h⟩
    | false => exact ⟨hw, fun _ => rfl⟩

/-- **Replies to requests of another term confirm nothing** (and change nothing). -/
theorem C05_other_term_reply_ignored (n : Node) (now peer round : Nat) (q : AEReq) (r : AEResp) (h : n.term ≠ q.term) :
    (n.onAEReply now peer round q (some r)).1 = n := by
  unfold onAEReply
  simp only
  split
  · rfl
  · simp [h]

/-- **Non-voters never confirm leadership**: a reply from a non-voting member leaves the
    verified flags of all pending reads and the lease untouched. -/
theorem C05_nonvoter_never_confirms (n : Node) (now peer round : Nat) (q : AEReq) (r : AEResp)
    (hv : n.config.isVoter peer = false) (hle : r.term ≤ n.term) :
    (n.onAEReply now peer round q (some r)).1.pendingReads = n.pendingReads ∧
    (n.onAEReply now peer round q (some r)).1.leaseExpiry = n.leaseExpiry := by
  unfold onAEReply
  simp only
  split; · exact ⟨rfl, rfl⟩
  split; · exact ⟨rfl, rfl⟩
  have hgt : ¬ r.term > n.term := by omega
  simp only [hgt, if_false, hv, Bool.false_eq_true]
  split
  · exact ⟨rfl, rfl⟩
  · split
    · exact ⟨rfl, rfl⟩
    · split <;> exact ⟨rfl, rfl⟩

/-! Non-vacuity: a leader with one verified and one unverified pending read serves only the verified one. -/
def exLeader : Node :=
  { id := 1, role := .leader, term := 2, commitIndex := 2, lastApplied := 2,
    log := { ents := [⟨1, 1, kConfig, 0, none⟩, ⟨2, 2, kNoop, 0, none⟩] },
    pendingReads := [{ tag := 7, lease := false, readIndex := 2, verified := true, seq := 1 },
                     { tag := 8, lease := false, readIndex := 2, verified := false, seq := 2 }] }
example : (exLeader.readOnlyStep 1000).2 = [.served 7] := by decide

/-! ### Cluster level (Proofs/ReplRead.lean) -/

/-- **Linearizable reads are never stale.** On the timed replication-layer model
    (Model/ReplRead.lean: the cluster model of C01 with a logical clock; a leader registers a
    read with the read index the code takes; `CanServe` is the guard under which the code
    answers it: still leader of that term, an entry of its own term committed, read index
    applied, and a quorum — the leader counting itself — has answered replication requests of
    this term that were built after the read was registered): in every reachable state, every
    commit any leader made before the read was registered lies, with exactly its entries,
    inside the prefix the read is answered from. No assumption on timing or clocks. -/
theorem C05_linearizable_read {cfg : Config} (hnd : cfg.voterIds.Nodup) {r : Repl.RState} (hreach : Repl.RReachable cfg r)
    (rd : Repl.Read) (a : Nat) (Q : List Nat) (hs : Repl.CanServe cfg r rd a Q) :
    ∀ e ∈ r.commitAt, e.time < rd.time → e.index ≤ a ∧ e.pre <+: (r.s.nodes rd.leader).log.take a :=
  Repl.linearizable_read hnd hreach rd a Q hs

/-- non-vacuity: a reachable state in which a read registered after a commit can be served -/
example : Repl.RReachable Repl.cfg3 Repl.t10 ∧ Repl.CanServe Repl.cfg3 Repl.t10 Repl.rd8 2 [1, 2] ∧
    ∃ e ∈ Repl.t10.commitAt, e.time < Repl.rd8.time ∧ e.index = 2 :=
  ⟨Repl.t10_reachable, Repl.t10_can_serve, Repl.t10_has_earlier_commit⟩

/-- **Reads that do not overlap in time never go backwards** (the statement's second clause), on
    the same timed model (Proofs/ReplReadMono.lean). A read was answered in the reachable state
    `r1` from the first `a1` entries of its leader's log; `r2` is any later state; a read that was
    registered at or after the moment of the first answer (`r1.now ≤ rd2.time`) and is served in
    `r2` — by whatever leader, of whatever later term, after any crashes and elections in
    between — is answered from a prefix that extends the first answer. No timing assumption. -/
theorem C05_reads_never_go_backwards {cfg : Config} (hnd : cfg.voterIds.Nodup) {r1 r2 : Repl.RState}
    (h1 : Repl.RReachable cfg r1) (h12 : Repl.RReachableFrom cfg r1 r2)
    (rd1 rd2 : Repl.Read) (a1 a2 : Nat) (Q1 Q2 : List Nat)
    (hs1 : Repl.CanServe cfg r1 rd1 a1 Q1) (hs2 : Repl.CanServe cfg r2 rd2 a2 Q2) (hafter : r1.now ≤ rd2.time) :
    a1 ≤ a2 ∧ (r1.s.nodes rd1.leader).log.take a1 <+: (r2.s.nodes rd2.leader).log.take a2 :=
  Repl.reads_never_go_backwards hnd h1 h12 rd1 rd2 a1 a2 Q1 Q2 hs1 hs2 hafter

/-- non-vacuity: the first read served at time 10, a second one registered at 10 and served at 13 -/
example : Repl.RReachable Repl.cfg3 Repl.t10 ∧ Repl.RReachableFrom Repl.cfg3 Repl.t10 Repl.t13 ∧
    Repl.CanServe Repl.cfg3 Repl.t10 Repl.rd8 2 [1, 2] ∧ Repl.CanServe Repl.cfg3 Repl.t13 Repl.rd11 2 [1, 2] ∧
    Repl.t10.now ≤ Repl.rd11.time :=
  ⟨Repl.t10_reachable, Repl.t13_from_t10, Repl.t10_can_serve, Repl.t13_can_serve, by decide⟩

end Raft
