/-
  Properties/C06.lean — log matching at handler level: AppendEntries only ever moves a
  log toward the sender's log.

  Every theorem quantifies over *all* node states and *all* requests (any term, any
  prev index/term, any entries, any leaderCommit, stale/duplicated/overlapping or
  not); `AEPre` (well-formed log, contiguous request entries) is needed only where the
  conclusion talks about positions in the log. The global statement ("same index and
  term ⇒ identical prefixes") is in Properties/Cluster*.lean.
-/
import RaftVerif.Proofs.AppendEntries
import RaftVerif.Proofs.ReplSafety
namespace Raft
open Log

/-- A rejected request leaves log, commit index, applied index and configuration unchanged. -/
theorem C06_reject_unchanged {n n' : Node} {now : Nat} {q : AEReq} {r : AEResp} {eff : List Effect}
    (h : appendEntries n now q = some (n', r, eff)) (hr : r.success = false) :
    n'.log = n.log ∧ n'.commitIndex = n.commitIndex ∧ n'.lastApplied = n.lastApplied ∧ n'.config = n.config := by
  unfold appendEntries at h
  split at h; · simp at h
  split at h
  · injection h with h; injection h with h1 h2; subst h1; exact ⟨rfl, rfl, rfl, rfl⟩
  · simp only at h
    split at h
    · injection h with h; injection h with h1 h2; subst h1
      exact ⟨aeEnter_log .., aeEnter_commitIndex .., aeEnter_lastApplied .., aeEnter_config ..⟩
    · injection h with h; injection h with h1 h2; subst h1
      exact ⟨aeEnter_log .., aeEnter_commitIndex .., aeEnter_lastApplied .., aeEnter_config ..⟩
    · injection h with h; injection h with h1 h2; injection h2 with h2 h3; subst h2; simp at hr

/-- The commit index never moves backwards, never past the entries verified to match the
    sender (`prevIndex + |entries|`), and never past the sender's commit index. -/
theorem C06_commit_rule {n n' : Node} {now : Nat} {q : AEReq} {r : AEResp} {eff : List Effect}
    (h : appendEntries n now q = some (n', r, eff)) :
    n.commitIndex ≤ n'.commitIndex ∧
    n'.commitIndex ≤ max n.commitIndex (q.prevIndex + q.entries.length) ∧
    n'.commitIndex ≤ max n.commitIndex q.leaderCommit := by
  unfold appendEntries at h
  split at h; · simp at h
  split at h
  · injection h with h; injection h with h1 h2; subst h1; omega
  · simp only at h
    split at h
    · injection h with h; injection h with h1 h2; subst h1; rw [aeEnter_commitIndex]; omega
    · injection h with h; injection h with h1 h2; subst h1; rw [aeEnter_commitIndex]; omega
    · injection h with h; injection h with h1 h2; subst h1
      have := aeAccept_commitIndex (aeEnter n now q).1 now q
      simp only [aeEnter_commitIndex] at this
      exact this

/-- An accepted request makes the log agree with every entry of the request; nothing at
    or below `prevIndex` changes; an entry is kept unless a request entry at an index
    not above it conflicts in term; a truncation happens only at a genuine conflict
    above `prevIndex`; the section raises no fatal error and keeps the log well-formed. -/
theorem C06_accept {n n' : Node} {now : Nat} {q : AEReq} {r : AEResp} {eff : List Effect}
    (h : appendEntries n now q = some (n', r, eff)) (hr : r.success = true) (hp : AEPre n q) :
    Effect.fatal ∉ eff ∧ n'.log.WF ∧ n'.log.base = n.log.base ∧
    (∀ e ∈ q.entries, ∃ g, n'.log.get? e.index = some g ∧ g.term = e.term) ∧
    (∀ i, i ≤ q.prevIndex → n'.log.get? i = n.log.get? i) ∧
    (∀ i g, n.log.get? i = some g →
        (∀ e ∈ q.entries, e.index ≤ i → ∃ ex, n.log.get? e.index = some ex ∧ ex.term = e.term) →
        n'.log.get? i = some g) ∧
    (∀ c, Effect.logTruncate c ∈ eff → q.prevIndex < c ∧
        ∃ e ∈ q.entries, e.index = c ∧ ∃ ex, n.log.get? c = some ex ∧ ex.term ≠ e.term) := by
  unfold appendEntries at h
  split at h; · simp at h
  split at h
  · injection h with h; injection h with h1 h2; injection h2 with h2 h3; subst h2; simp at hr
  · simp only at h
    split at h
    · injection h with h; injection h with h1 h2; injection h2 with h2 h3; subst h2; simp at hr
    · injection h with h; injection h with h1 h2; injection h2 with h2 h3; subst h2; simp at hr
    · rename_i hok
      injection h with h; injection h with h1 h2; injection h2 with h2 h3; subst h1 h3
      obtain ⟨k1, k2, _, _⟩ := aePrevCheck_ok hok
      have hp' : AEPre (aeEnter n now q).1 q :=
        ⟨by rw [aeEnter_log]; exact hp.wf, by rw [aeEnter_log, aeEnter_snapIndex]; exact hp.base_le, hp.contig⟩
      have hs := aeAccept_spec (now := now) hp' k1 k2
      simp only [aeEnter_log] at hs
      obtain ⟨s1, s2, s3, s4, s5, s6, s7⟩ := hs
      refine ⟨?_, s2, s3, s4, s5, s6, ?_⟩
      · simp only [List.mem_append, not_or]; exact ⟨aeEnter_no_fatal n now q, s1⟩
      · intro c hc
        simp only [List.mem_append] at hc
        rcases hc with hc | hc
        · exfalso
          unfold aeEnter at hc; simp only at hc
          unfold Node.becomeFollower Node.resetSnapshots at hc
          split at hc <;> split at hc <;> simp at hc <;> (repeat (first | (split at hc <;> simp at hc) | skip))
        · exact s7 c hc

/-- Terms never decrease, and the reply carries the node's term after the section. -/
theorem C06_term {n n' : Node} {now : Nat} {q : AEReq} {r : AEResp} {eff : List Effect}
    (h : appendEntries n now q = some (n', r, eff)) : n.term ≤ n'.term ∧ r.term = n'.term := by
  unfold appendEntries at h
  split at h; · simp at h
  split at h
  · injection h with h; injection h with h1 h2; injection h2 with h2 h3; subst h1 h2; simp
  · rename_i hge
    have hle : n.term ≤ q.term := by omega
    simp only at h
    split at h
    · injection h with h; injection h with h1 h2; injection h2 with h2 h3; subst h1 h2
      simp [aeEnter_term n now q hle, hle]
    · injection h with h; injection h with h1 h2; injection h2 with h2 h3; subst h1 h2
      simp [aeEnter_term n now q hle, hle]
    · injection h with h; injection h with h1 h2; injection h2 with h2 h3; subst h1 h2
      simp [(aeAccept_term _ now q).1, aeEnter_term n now q hle, hle]

/-! Non-vacuity: a concrete follower with a conflicting tail, a request that overwrites
    it, and the premises of `C06_accept` hold. -/
def exNode : Node :=
  { id := 1, term := 3, log := { ents := [⟨1, 1, 1, 11, none⟩, ⟨2, 1, 1, 12, none⟩, ⟨3, 2, 1, 13, none⟩] },
    commitIndex := 1, config := ⟨1, [(1, true), (2, true), (3, true)]⟩ }
def exReq : AEReq :=
  { leaderId := 2, term := 3, leaderCommit := 3, prevIndex := 2, prevTerm := 1,
    entries := [⟨3, 3, 1, 23, none⟩, ⟨4, 3, 1, 24, none⟩] }

example : AEPre exNode exReq := ⟨by decide, by decide, by decide⟩
example : ∃ n' r eff, appendEntries exNode 1000 exReq = some (n', r, eff) ∧ r.success = true ∧
    n'.commitIndex = 3 ∧ Effect.logTruncate 3 ∈ eff ∧ n'.log.ents.length = 4 := by
  refine ⟨_, _, _, rfl, ?_, ?_, ?_, ?_⟩ <;> decide

/-! ### The overlap probe of E3-appendEntries (DESIGN 13.4)

  The probe holds back the log append of request A (term 3, entries 1-2), issues request B (term 4,
  another entry 1) and lets the append go; its oracle is "the state both sequential orders produce".
  That the two orders do coincide, and on which state, is evaluated on the model (a test by
  evaluation of two concrete requests, not a theorem about all pairs). -/
def probeNode : Node := { id := 1, term := 3, log := { ents := [] }, config := ⟨1, [(1, true), (2, true), (3, true)]⟩ }
def probeA : AEReq := { leaderId := 2, term := 3, leaderCommit := 0, prevIndex := 0, prevTerm := 0,
                        entries := [⟨1, 3, 1, 131, none⟩, ⟨2, 3, 1, 231, none⟩] }
def probeB : AEReq := { leaderId := 3, term := 4, leaderCommit := 0, prevIndex := 0, prevTerm := 0,
                        entries := [⟨1, 4, 1, 141, none⟩] }
def thenAE (n : Option Node) (q : AEReq) : Option Node := n.bind (fun n => (appendEntries n 1000 q).map (·.1))

example : (thenAE (thenAE (some probeNode) probeA) probeB).map (fun n => (n.term, n.log.ents)) = some (4, [⟨1, 4, 1, 141, none⟩]) ∧
          (thenAE (thenAE (some probeNode) probeB) probeA).map (fun n => (n.term, n.log.ents)) = some (4, [⟨1, 4, 1, 141, none⟩]) := by
  decide

/-! ### Cluster level (Proofs/ReplSafety.lean) -/

/-- **Log matching, globally.** In every reachable state of the replication-layer model: if
    two nodes hold an entry of the same term at the same index, their logs are identical up to
    that index. -/
theorem C06_log_matching {cfg : Config} (hnd : cfg.voterIds.Nodup) {s : Repl.AState} (hr : Repl.Reachable cfg s) (a b i : Nat)
    (h1 : 1 ≤ i) (ha : i ≤ (s.nodes a).log.length) (hb : i ≤ (s.nodes b).log.length)
    (ht : Repl.termAt (s.nodes a).log i = Repl.termAt (s.nodes b).log i) :
    (s.nodes a).log.take i = (s.nodes b).log.take i :=
  Repl.log_matching hnd hr a b i h1 ha hb ht

end Raft
