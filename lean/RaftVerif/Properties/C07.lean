/-
  Properties/C07.lean — leader completeness (node-level ingredients and status).

  Proved here for every node state: the vote restriction (a vote, real or pre-, is only
  granted to a candidate whose (last term, last index) is lexicographically at least the
  voter's — C08_vote_up_to_date, restated), a new leader keeps its whole log and appends
  one no-op of its term, and no leader section ever truncates. The cluster-level
  induction (every later leader holds every committed entry) is not claimed as proved;
  the tie is E4: at the moment a node is first seen leading a term its log is compared
  with everything applied anywhere.
-/
import RaftVerif.Proofs.LeaderSpecs
import RaftVerif.Proofs.ReplSafety
import RaftVerif.Properties.C08
set_option linter.unusedSimpArgs false
namespace Raft
open Node

/-- **Vote restriction**, both for real votes and prevotes: neither "longer log only"
    nor "higher last term only" suffices. -/
theorem C07_vote_restriction {n n' : Node} {now : Nat} {q : RVReq} {r : RVResp} {eff : List Effect}
    (h : requestVote n now q = some (n', r, eff)) (hg : r.granted = true) :
    n.log.lastTerm < q.lastTerm ∨ (n.log.lastTerm = q.lastTerm ∧ n.log.lastIndex ≤ q.lastIndex) :=
  C08_vote_up_to_date h hg

/-- **A new leader keeps every entry it holds** and adds one no-op of its term at the end. -/
theorem C07_new_leader_keeps_log (n : Node) (now i : Nat) (e : Entry) (hw : n.log.WF) (h : n.log.get? i = some e) :
    (n.becomeLeader now).1.log.get? i = some e := by
  rw [becomeLeader_log]
  have hc : n.log.contains i = true := (Log.get?_eq_some_iff.mp h).1
  rw [Log.get?_append_left hc]; exact h

/-- **Leaders never overwrite**: the sections a leader runs on its own log (becoming
    leader, client submission, commit) emit no truncation. -/
theorem C07_leader_never_truncates (n : Node) (now data i : Nat) :
    Effect.logTruncate i ∉ (n.becomeLeader now).2 ∧ Effect.logTruncate i ∉ (n.submitReplicated now data).2.1 ∧
    Effect.logTruncate i ∉ (n.commitStep now).2 := by
  refine ⟨?_, ?_, ?_⟩
  · unfold becomeLeader sendAEToPeers tryApplyReadOnly resetSnapshots
    simp only
    split <;> split <;> simp <;> split <;> simp
  · unfold submitReplicated
    split
    · simp
    · unfold sendAEToPeers tryApplyReadOnly
      simp only
      split <;> simp <;> split <;> simp
  · unfold commitStep
    split
    · simp
    · split
      · simp
      · split
        · unfold sendAEToPeers tryApplyReadOnly
          simp only
          split <;> simp <;> split <;> simp
        · simp

/-! ### Cluster level (Proofs/ReplSafety.lean) -/

/-- **Leader completeness.** In every reachable state of the replication-layer model: a
    position `(i, t)` of the leader log of term `t` that a quorum acknowledged in term `t` is
    in the log of the leader of every later term `T`, together with everything before it. -/
theorem C07_leader_completeness {cfg : Config} (hnd : cfg.voterIds.Nodup) {s : Repl.AState} (hr : Repl.Reachable cfg s)
    (t c : Nat) (g : List Repl.AEntry) (i : Nat) (hg : s.glog t = some (c, g)) (h1 : 1 ≤ i) (hig : i ≤ g.length)
    (hti : Repl.termAt g i = t) (hq : Repl.QuorumAcked cfg s i t)
    (T c' : Nat) (gT : List Repl.AEntry) (hT : s.glog T = some (c', gT)) (hlt : t < T) :
    gT.take i = g.take i :=
  Repl.leader_completeness hnd hr t c g i hg h1 hig hti hq T c' gT hT hlt

/-- every node's committed prefix is a prefix of the log of every leader of a later term -/
theorem C07_committed_in_later_leaders {cfg : Config} (hnd : cfg.voterIds.Nodup) {s : Repl.AState} (hr : Repl.Reachable cfg s)
    (a : Nat) (T c : Nat) (gT : List Repl.AEntry) (hT : s.glog T = some (c, gT)) (hlt : (s.nodes a).term < T) :
    (s.nodes a).log.take (s.nodes a).commit <+: gT :=
  Repl.committed_in_later_leaders hnd hr a T c gT hT hlt

end Raft
