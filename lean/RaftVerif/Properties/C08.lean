/-
  Properties/C08.lean — term and vote are monotone and durable; one real vote per term
  across crashes; votes only for up-to-date candidates; prevotes are pure.
-/
import RaftVerif.Proofs.TermVote
set_option linter.unusedSimpArgs false
namespace Raft

/-! ### Handler level: every voter state, every request -/

theorem rvEnter_log (n : Node) (now : Nat) (q : RVReq) : (rvEnter n now q).1.log = n.log := by
  unfold rvEnter; split <;> simp
theorem rvEnter_term_le (n : Node) (now : Nat) (q : RVReq) : n.term ≤ (rvEnter n now q).1.term := by
  unfold rvEnter; split
  · simp only [Node.becomeFollower_term]; omega
  · exact Nat.le_refl _
theorem rvEnter_prevote (n : Node) (now : Nat) (q : RVReq) (hp : q.prevote = true) : rvEnter n now q = (n, []) := by
  unfold rvEnter; simp [hp]
theorem rvEnter_term (n : Node) (now : Nat) (q : RVReq) (hp : q.prevote = false) (hge : n.term ≤ q.term) :
    (rvEnter n now q).1.term = q.term := by
  unfold rvEnter; simp only [hp, Bool.not_false, true_and]
  split
  · simp
  · simp only; omega
theorem rvEnter_votedFor (n : Node) (now : Nat) (q : RVReq) (hp : q.prevote = false) :
    (rvEnter n now q).1.votedFor = if q.term > n.term then 0 else n.votedFor := by
  unfold rvEnter; simp only [hp, Bool.not_false, true_and]
  split <;> simp_all

/-- Terms never decrease and the reply carries the voter's term after the section. -/
theorem C08_term_monotone {n n' : Node} {now : Nat} {q : RVReq} {r : RVResp} {eff : List Effect}
    (h : requestVote n now q = some (n', r, eff)) : n.term ≤ n'.term ∧ r.term = n'.term := by
  unfold requestVote at h
  have hm := rvEnter_term_le n now q
  split at h; · simp at h
  split at h; · injection h with h; injection h with h1 h2; injection h2 with h2 h3; subst h1 h2; simp
  split at h; · injection h with h; injection h with h1 h2; injection h2 with h2 h3; subst h1 h2; simp
  simp only at h
  split at h; · injection h with h; injection h with h1 h2; injection h2 with h2 h3; subst h1 h2; exact ⟨hm, rfl⟩
  split at h; · injection h with h; injection h with h1 h2; injection h2 with h2 h3; subst h1 h2; exact ⟨hm, rfl⟩
  split at h
  · injection h with h; injection h with h1 h2; injection h2 with h2 h3; subst h1 h2; exact ⟨hm, rfl⟩
  · injection h with h; injection h with h1 h2; injection h2 with h2 h3; subst h1 h2; exact ⟨hm, rfl⟩

/-- A prevote never changes the voter (term, vote, contact time, role, anything) and
    touches no storage, whatever it answers. -/
theorem C08_prevote_pure {n n' : Node} {now : Nat} {q : RVReq} {r : RVResp} {eff : List Effect}
    (h : requestVote n now q = some (n', r, eff)) (hp : q.prevote = true) : n' = n ∧ eff = [] := by
  unfold requestVote at h
  rw [rvEnter_prevote n now q hp] at h
  split at h; · simp at h
  split at h; · injection h with h; injection h with h1 h2; injection h2 with h2 h3; subst h1 h3; simp
  split at h; · injection h with h; injection h with h1 h2; injection h2 with h2 h3; subst h1 h3; simp
  simp only [hp, Bool.not_true, Bool.false_eq_true, false_and, if_false] at h
  split at h; · injection h with h; injection h with h1 h2; injection h2 with h2 h3; subst h1 h3; simp
  injection h with h; injection h with h1 h2; injection h2 with h2 h3; subst h1 h3; simp

/-- A vote (real or pre-) is granted only to a candidate whose log is at least as up to
    date as the voter's: `(lastTerm, lastIndex)` compared lexicographically. -/
theorem C08_vote_up_to_date {n n' : Node} {now : Nat} {q : RVReq} {r : RVResp} {eff : List Effect}
    (h : requestVote n now q = some (n', r, eff)) (hg : r.granted = true) :
    n.log.lastTerm < q.lastTerm ∨ (n.log.lastTerm = q.lastTerm ∧ n.log.lastIndex ≤ q.lastIndex) := by
  unfold requestVote at h
  split at h; · simp at h
  split at h; · injection h with h; injection h with h1 h2; injection h2 with h2 h3; subst h2; simp at hg
  split at h; · injection h with h; injection h with h1 h2; injection h2 with h2 h3; subst h2; simp at hg
  simp only at h
  split at h; · injection h with h; injection h with h1 h2; injection h2 with h2 h3; subst h2; simp at hg
  split at h; · injection h with h; injection h with h1 h2; injection h2 with h2 h3; subst h2; simp at hg
  rename_i hlog
  rw [rvEnter_log] at hlog
  omega

/-- A granted real vote is recorded and persisted (last storage effect) before the reply,
    for the request's term; and it is never a second vote of that term. -/
theorem C08_grant_recorded {n n' : Node} {now : Nat} {q : RVReq} {r : RVResp} {eff : List Effect}
    (h : requestVote n now q = some (n', r, eff)) (hg : r.granted = true) (hp : q.prevote = false) :
    n'.term = q.term ∧ r.term = q.term ∧ n'.votedFor = q.candidate ∧
    (∃ pre, eff = pre ++ [Effect.setState q.term q.candidate]) ∧
    (q.term = n.term → n.votedFor = 0 ∨ n.votedFor = q.candidate) := by
  unfold requestVote at h
  split at h; · simp at h
  split at h; · injection h with h; injection h with h1 h2; injection h2 with h2 h3; subst h2; simp at hg
  split at h; · injection h with h; injection h with h1 h2; injection h2 with h2 h3; subst h2; simp at hg
  rename_i hge
  have hle : n.term ≤ q.term := by omega
  simp only [hp, Bool.not_false, true_and, Bool.false_eq_true, if_false] at h
  split at h; · injection h with h; injection h with h1 h2; injection h2 with h2 h3; subst h2; simp at hg
  rename_i hvote
  split at h; · injection h with h; injection h with h1 h2; injection h2 with h2 h3; subst h2; simp at hg
  injection h with h; injection h with h1 h2; injection h2 with h2 h3; subst h1 h2 h3
  have ht := rvEnter_term n now q hp hle
  have hv := rvEnter_votedFor n now q hp
  refine ⟨ht, ht, rfl, ⟨_, by rw [ht]⟩, fun heq => ?_⟩
  have hng : ¬ q.term > n.term := by omega
  simp only [hng, if_false] at hv
  rw [hv] at hvote
  by_cases h0 : n.votedFor = 0
  · left; exact h0
  · right
    by_cases hc : n.votedFor = q.candidate
    · exact hc
    · exact absurd ⟨h0, hc⟩ hvote

/-! ### The two handlers as sections, and their goodness -/

/-- `RequestVote` as a section; the grant is what the candidate sees: the reply's term. -/
def rvSect (now : Nat) (q : RVReq) : Sect := fun n =>
  (requestVote n now q).map fun x =>
    (x.1, x.2.2, if x.2.1.granted && !q.prevote then some ⟨x.2.1.term, q.candidate⟩ else none)

/-- `AppendEntries` as a section (it never grants a vote). -/
def aeSect (now : Nat) (q : AEReq) : Sect := fun n =>
  (appendEntries n now q).map fun x => (x.1, x.2.2, none)

theorem becomeFollower_chain (n : Node) (now l t : Nat) (h : n.term ≤ t) :
    TVChain (n.term, n.votedFor) (n.becomeFollower now l t).2 ∧
    persistAfter (n.term, n.votedFor) (n.becomeFollower now l t).2 = (t, if t > n.term then 0 else n.votedFor) := by
  unfold Node.becomeFollower Node.resetSnapshots
  simp only
  constructor
  · simp only [List.cons_append, List.nil_append, TVChain]
    refine ⟨⟨h, fun ht => ?_⟩, ?_⟩
    · simp only at ht; left; simp [ht]
    · split <;> split <;> split <;> simp [TVChain]
  · simp only [List.cons_append, List.nil_append, persistAfter]
    split <;> split <;> split <;> simp [persistAfter]

theorem rvSect_good (now : Nat) (q : RVReq) (hc : q.candidate ≠ 0) : (rvSect now q).Good := by
  have key : ∀ n n' r eff, requestVote n now q = some (n', r, eff) →
      TVChain (n.term, n.votedFor) eff ∧ persistAfter (n.term, n.votedFor) eff = (n'.term, n'.votedFor) := by
    intro n n' r eff h
    unfold requestVote at h
    split at h; · simp at h
    split at h; · injection h with h; injection h with h1 h2; injection h2 with h2 h3; subst h1 h3; simp [TVChain, persistAfter]
    split at h; · injection h with h; injection h with h1 h2; injection h2 with h2 h3; subst h1 h3; simp [TVChain, persistAfter]
    rename_i hge
    simp only at h
    -- the optional step to the request's term
    have hbf : TVChain (n.term, n.votedFor) (rvEnter n now q).2 ∧
        persistAfter (n.term, n.votedFor) (rvEnter n now q).2 = ((rvEnter n now q).1.term, (rvEnter n now q).1.votedFor) := by
      unfold rvEnter
      split
      · have := becomeFollower_chain n now q.candidate q.term (by omega)
        simp only [Node.becomeFollower_term, Node.becomeFollower_votedFor]
        exact this
      · simp [TVChain, persistAfter]
    split at h; · injection h with h; injection h with h1 h2; injection h2 with h2 h3; subst h1 h3; exact hbf
    rename_i hvote
    split at h; · injection h with h; injection h with h1 h2; injection h2 with h2 h3; subst h1 h3; exact hbf
    split at h; · injection h with h; injection h with h1 h2; injection h2 with h2 h3; subst h1 h3; exact hbf
    injection h with h; injection h with h1 h2; injection h2 with h2 h3; subst h1 h3
    rename_i hpv
    refine ⟨TVChain.append hbf.1 ?_, ?_⟩
    · rw [hbf.2]
      simp only [TVChain, and_true]
      refine ⟨Nat.le_refl _, fun _ => ?_⟩
      simp only
      -- the voted guard: no vote yet, or the same candidate
      by_cases h0 : (rvEnter n now q).1.votedFor = 0
      · right; exact h0
      · left
        by_cases hcand : (rvEnter n now q).1.votedFor = q.candidate
        · exact hcand.symm
        · exfalso; apply hvote
          refine ⟨?_, h0, hcand⟩
          simpa using hpv
    · rw [persistAfter_append, hbf.2]; simp [persistAfter]
  refine ⟨?_, ?_, ?_⟩
  · intro n n' eff g h
    unfold rvSect at h
    cases hr : requestVote n now q with
    | none => simp [hr] at h
    | some x =>
      obtain ⟨a, b, c⟩ := x
      simp only [hr, Option.map_some, Option.some.injEq, Prod.mk.injEq] at h
      obtain ⟨h1, h2, _⟩ := h; subst h1 h2
      exact (key _ _ _ _ hr).1
  · intro n n' eff g h
    unfold rvSect at h
    cases hr : requestVote n now q with
    | none => simp [hr] at h
    | some x =>
      obtain ⟨a, b, c⟩ := x
      simp only [hr, Option.map_some, Option.some.injEq, Prod.mk.injEq] at h
      obtain ⟨h1, h2, _⟩ := h; subst h1 h2
      exact (key _ _ _ _ hr).2
  · intro n n' eff t c h
    unfold rvSect at h
    cases hr : requestVote n now q with
    | none => simp [hr] at h
    | some x =>
      obtain ⟨a, b, d⟩ := x
      simp only [hr, Option.map_some, Option.some.injEq, Prod.mk.injEq] at h
      obtain ⟨h1, h2, h3⟩ := h; subst h1 h2
      split at h3
      · rename_i hcond
        simp only [Bool.and_eq_true, Bool.not_eq_eq_eq_not, Bool.not_true] at hcond
        injection h3 with h3; injection h3 with h3 h4; subst h3 h4
        obtain ⟨e1, e2, e3, _, _⟩ := C08_grant_recorded hr hcond.1 hcond.2
        exact ⟨by rw [e1, e2], e3, hc⟩
      · simp at h3

theorem aeSect_good (now : Nat) (q : AEReq) : (aeSect now q).Good := by
  have key : ∀ n n' r eff, appendEntries n now q = some (n', r, eff) →
      TVChain (n.term, n.votedFor) eff ∧ persistAfter (n.term, n.votedFor) eff = (n'.term, n'.votedFor) := by
    intro n n' r eff h
    unfold appendEntries at h
    split at h; · simp at h
    split at h; · injection h with h; injection h with h1 h2; injection h2 with h2 h3; subst h1 h3; simp [TVChain, persistAfter]
    rename_i hge
    have hle : n.term ≤ q.term := by omega
    -- `aeEnter` is at most two `becomeFollower`s to the request's term
    have hent : TVChain (n.term, n.votedFor) (aeEnter n now q).2 ∧
        persistAfter (n.term, n.votedFor) (aeEnter n now q).2 = ((aeEnter n now q).1.term, (aeEnter n now q).1.votedFor) := by
      rw [aeEnter_term n now q hle, aeEnter_votedFor n now q hle]
      unfold aeEnter; simp only
      by_cases hgt : q.term > n.term
      · simp only [hgt, if_true, Node.becomeFollower_term, Node.becomeFollower_role, true_and]
        have h1 := becomeFollower_chain { n with lastContact := now, leaderId := q.leaderId } now q.leaderId q.term hle
        simp only [hgt, if_true] at h1
        simp only [reduceCtorEq, or_self, if_false, List.append_nil]
        exact h1
      · simp only [hgt, if_false, List.nil_append]
        have heq : q.term = n.term := by omega
        split
        · have h1 := becomeFollower_chain { n with lastContact := now, leaderId := q.leaderId } now q.leaderId q.term hle
          simp only [hgt, if_false] at h1
          exact h1
        · simp [TVChain, persistAfter, heq]
    simp only at h
    split at h
    · injection h with h; injection h with h1 h2; injection h2 with h2 h3; subst h1 h3; exact hent
    · injection h with h; injection h with h1 h2; injection h2 with h2 h3; subst h1 h3
      refine ⟨TVChain.append hent.1 (by simp [TVChain]), ?_⟩
      rw [persistAfter_append, hent.2]; simp [persistAfter]
    · injection h with h; injection h with h1 h2; injection h2 with h2 h3; subst h1 h3
      -- the accepting part emits no `setState` and keeps term and vote
      have hns : ∀ p, TVChain p (aeAccept (aeEnter n now q).1 now q).2 ∧
          persistAfter p (aeAccept (aeEnter n now q).1 now q).2 = p := by
        intro p
        unfold aeAccept
        cases hm : mergeScan (aeEnter n now q).1.log q.entries with
        | fatal => simp [TVChain, persistAfter]
        | ok l1 t app =>
          simp only
          have hnc : ∀ (m : Node) (c : Option Config) (p : Nat × Nat),
              TVChain p (m.nextConfiguration now c).2 ∧ persistAfter p (m.nextConfiguration now c).2 = p := by
            intro m c p
            unfold Node.nextConfiguration
            cases c with
            | none => simp [TVChain, persistAfter]
            | some cc =>
              simp only
              split
              · simp [TVChain, persistAfter]
              · unfold Node.stepdown Node.resetSnapshots
                split <;> simp only [] <;> split <;> simp [TVChain, persistAfter]
          cases t with
          | none => simp only; split <;> simp [TVChain, persistAfter]
          | some ti =>
            simp only
            split <;> split <;>
              simp only [List.cons_append, List.nil_append, List.append_assoc, TVChain, persistAfter] <;>
              first
                | exact ⟨TVChain.append (hnc _ _ _).1 (by simp [TVChain]), by rw [persistAfter_append, (hnc _ _ _).2]; simp [persistAfter]⟩
                | simp [TVChain, persistAfter]
      refine ⟨TVChain.append hent.1 (hns _).1, ?_⟩
      rw [persistAfter_append, (hns _).2, hent.2, (aeAccept_term _ now q).1, (aeAccept_term _ now q).2]
  refine ⟨?_, ?_, ?_⟩
  · intro n n' eff g h
    unfold aeSect at h
    cases hr : appendEntries n now q with
    | none => simp [hr] at h
    | some x =>
      obtain ⟨a, b, c⟩ := x
      simp only [hr, Option.map_some, Option.some.injEq, Prod.mk.injEq] at h
      obtain ⟨h1, h2, _⟩ := h; subst h1 h2
      exact (key _ _ _ _ hr).1
  · intro n n' eff g h
    unfold aeSect at h
    cases hr : appendEntries n now q with
    | none => simp [hr] at h
    | some x =>
      obtain ⟨a, b, c⟩ := x
      simp only [hr, Option.map_some, Option.some.injEq, Prod.mk.injEq] at h
      obtain ⟨h1, h2, _⟩ := h; subst h1 h2
      exact (key _ _ _ _ hr).2
  · intro n n' eff t c h
    unfold aeSect at h
    cases hr : appendEntries n now q with
    | none => simp [hr] at h
    | some x => simp [hr] at h

/-! ### Sequence level: any stimuli, any crash points -/

/-- What a voter can be subjected to: vote requests and replication requests with
    arbitrary fields at arbitrary times, each either run to completion or cut by a crash
    after `k` of its storage effects and followed by a restart (as node `r`, whose term
    and vote are what the cut left on disk; everything else about `r` is arbitrary). -/
inductive VoterStim
  | rv (now : Nat) (q : RVReq)
  | ae (now : Nat) (q : AEReq)
  | rvCrash (now : Nat) (q : RVReq) (k : Nat) (r : Node)
  | aeCrash (now : Nat) (q : AEReq) (k : Nat) (r : Node)

def VoterStim.toStim : VoterStim → Stim
  | .rv now q => .run (rvSect now q)
  | .ae now q => .run (aeSect now q)
  | .rvCrash now q k r => .crashIn (rvSect now q) k r
  | .aeCrash now q k r => .crashIn (aeSect now q) k r

/-- Candidate ids are never the empty string. -/
def VoterStim.Valid : VoterStim → Prop
  | .rv _ q => q.candidate ≠ 0
  | .rvCrash _ q _ _ => q.candidate ≠ 0
  | _ => True

/-- **C08, one vote per term across crashes.** From any voter state, along any finite
    sequence of stimuli with crashes at any storage-effect boundary, the real votes the
    node ever sent out name at most one candidate per term, and its term never
    decreases (also across restarts). -/
theorem C08_one_vote_per_term (n0 : Node) (sts : List VoterStim) (s' : Trace)
    (hv : ∀ st ∈ sts, st.Valid) (he : Execs ⟨n0, []⟩ (sts.map VoterStim.toStim) s') :
    UniqueVotes s'.grants ∧ n0.term ≤ s'.node.term := by
  have hg : ∀ st ∈ sts.map VoterStim.toStim, st.Good := by
    intro st hst
    obtain ⟨v, hvm, rfl⟩ := List.mem_map.mp hst
    have := hv v hvm
    cases v with
    | rv now q => exact rvSect_good now q this
    | ae now q => exact aeSect_good now q
    | rvCrash now q k r => exact rvSect_good now q this
    | aeCrash now q k r => exact aeSect_good now q
  have := execs_inv hg he (by intro g hg; simp at hg) (by intro g hg; simp at hg)
  exact ⟨this.2.1, this.2.2⟩

/-! Non-vacuity: the scenario that broke the property before the `fix:` commit — vote for
    candidate 2 in term 5, then an AppendEntries of the same term 5 while pre-candidate,
    then a vote request of candidate 3 in term 5 — runs, and the second vote is refused. -/
def exVoter : Node := { id := 1, term := 4, config := ⟨1, [(1, true), (2, true), (3, true)]⟩, lastContact := 0 }
def exRV2 : RVReq := { candidate := 2, term := 5, lastIndex := 0, lastTerm := 0, prevote := false }
def exRV3 : RVReq := { candidate := 3, term := 5, lastIndex := 0, lastTerm := 0, prevote := false }
def exAE5 : AEReq := { leaderId := 2, term := 5, leaderCommit := 0, prevIndex := 9, prevTerm := 4, entries := [] }

example :
    ∃ n1 r1 e1 n2 r2 e2 n3 r3 e3,
      requestVote exVoter 1000 exRV2 = some (n1, r1, e1) ∧ r1.granted = true ∧
      appendEntries { n1 with role := .precandidate } 2000 exAE5 = some (n2, r2, e2) ∧ r2.success = false ∧
      requestVote n2 3000 exRV3 = some (n3, r3, e3) ∧ r3.granted = false ∧ n3.votedFor = 2 := by
  refine ⟨_, _, _, _, _, _, _, _, _, rfl, by decide, rfl, by decide, rfl, by decide, by decide⟩

end Raft
