/-
  Properties/C09.lean — membership changes (node-level statements; known findings).

  Proved for every node state: non-voting members never count — `hasQuorum` compares
  with the number of *voters*; the commit scan counts voters' match indices only; a
  non-voter never starts an election and no vote request is ever built for or by a
  non-voter; a reply from a non-voter neither confirms leadership nor renews the lease
  (C05_nonvoter_never_confirms). Quorums of one configuration intersect in a voter
  (quorums_intersect). The cluster-level statement — safety under interleaved
  add/remove — is FALSE of this code (DESIGN.md S3, S4: followers adopt a configuration
  when applied, the leader when appended; a removal is not pending): the witnesses are
  replayed on the real code by E4 (directed scenarios S3, S4) and listed as known
  findings; a different violation is still reported.
-/
import RaftVerif.Properties.C04
import RaftVerif.Properties.C05
import RaftVerif.Proofs.ElectionSafety
import RaftVerif.Proofs.LeaderSpecs
set_option linter.unusedSimpArgs false
namespace Raft
open Node

/-- **`hasQuorum` counts voters only**: it is "more than half of the voters", however
    many non-voting members the configuration has. -/
theorem C09_quorum_counts_voters (c : Config) (count : Nat) :
    c.hasQuorum count = true ↔ 2 * count > c.voters ∨ (2 * count = c.voters ∧ False) ∨ count > c.voters / 2 := by
  unfold Config.hasQuorum
  simp only [decide_eq_true_eq, and_false, false_or]
  constructor
  · intro h; right; exact h
  · intro h; rcases h with h | h
    · omega
    · exact h

/-- **A non-voter never campaigns.** -/
theorem C09_nonvoter_never_campaigns (n : Node) (now : Nat) (h : n.config.isVoter n.id = false) :
    n.election now = (n, []) := by
  unfold election; simp [h]

/-- **No vote request is built for, or by, a non-voter.** -/
theorem C09_no_vote_request_for_nonvoter (n : Node) (peer : Nat) (pv : Bool)
    (h : n.config.isVoter peer = false ∨ n.config.isVoter n.id = false) : n.prepareRV peer pv = none := by
  unfold prepareRV; simp [h]

/-- **Commitment counts voters only**: every follower the commit rule counts is a voter. -/
theorem C09_commit_counts_voters_only (n : Node) (index : Nat) :
    ∀ f ∈ n.matchers index, n.config.isVoter f.id = true := by
  intro f hf
  unfold matchers at hf
  obtain ⟨_, hp⟩ := List.mem_filter.mp hf
  simp only [Bool.and_eq_true, decide_eq_true_eq] at hp
  exact hp.1.2

/-- **Two quorums of one configuration share a voter.** -/
theorem C09_quorums_of_one_configuration_intersect (cfg : Config) (hnd : cfg.voterIds.Nodup) (Q1 Q2 : List Nat)
    (h1 : Q1.Nodup) (h2 : Q2.Nodup) (s1 : ∀ v ∈ Q1, cfg.isVoter v = true) (s2 : ∀ v ∈ Q2, cfg.isVoter v = true)
    (q1 : cfg.hasQuorum Q1.length = true) (q2 : cfg.hasQuorum Q2.length = true) : ∃ v, v ∈ Q1 ∧ v ∈ Q2 :=
  Cluster.quorums_intersect cfg hnd Q1 Q2 h1 h2 s1 s2 q1 q2

/-- **Quorums of ADJACENT configurations intersect** — the arithmetic that makes one-at-a-time
    membership changes safe: if `c'` has exactly the voters of `c` plus one (`x`), every quorum
    of `c` shares a voter with every quorum of `c'`. Read from right to left it is the removal
    of a voter; a promotion or demotion is the addition or removal of a voter too. -/
theorem C09_quorums_of_adjacent_configurations_intersect (c c' : Config) (hnd : c.voterIds.Nodup) (hnd' : c'.voterIds.Nodup)
    (x : Nat) (hx : x ∉ c.voterIds) (hadj : ∀ v, v ∈ c'.voterIds ↔ (v = x ∨ v ∈ c.voterIds))
    (Q Q' : List Nat) (h1 : Q.Nodup) (h2 : Q'.Nodup)
    (s1 : ∀ v ∈ Q, v ∈ c.voterIds) (s2 : ∀ v ∈ Q', v ∈ c'.voterIds)
    (q1 : c.hasQuorum Q.length = true) (q2 : c'.hasQuorum Q'.length = true) : ∃ v, v ∈ Q ∧ v ∈ Q' := by
  have hvl : c.voterIds.length = c.voters := by simp [Config.voterIds, Config.voters]
  have hvl' : c'.voterIds.length = c'.voters := by simp [Config.voterIds, Config.voters]
  -- c' has one voter more
  have hlen' : c'.voterIds.length = c.voterIds.length + 1 := by
    have hndx : (x :: c.voterIds).Nodup := List.nodup_cons.mpr ⟨hx, hnd⟩
    have a := List.Nodup.length_le_of_subset hnd' (fun v hv => by
      rcases (hadj v).mp hv with rfl | h
      · exact List.mem_cons_self
      · exact List.mem_cons_of_mem _ h : c'.voterIds ⊆ x :: c.voterIds)
    have b := List.Nodup.length_le_of_subset hndx (fun v hv => by
      rcases List.mem_cons.mp hv with rfl | h
      · exact (hadj _).mpr (Or.inl rfl)
      · exact (hadj v).mpr (Or.inr h) : x :: c.voterIds ⊆ c'.voterIds)
    simp only [List.length_cons] at a b
    omega
  by_cases hex : ∃ v, v ∈ Q ∧ v ∈ Q'
  · exact hex
  · exfalso
    have hdisj : ∀ v, v ∈ Q → v ∉ Q' := fun v hv hv2 => hex ⟨v, hv, hv2⟩
    have herase : ∀ v, v ∈ Q'.erase x → v ∈ Q' ∧ v ≠ x := by
      intro v hv
      exact ⟨List.mem_of_mem_erase hv, fun e => by subst e; exact (List.Nodup.mem_erase_iff h2).mp hv |>.1 rfl⟩
    have hnd12 : (Q ++ Q'.erase x).Nodup := by
      rw [List.nodup_append]
      exact ⟨h1, h2.erase x, fun a ha b hb hab => hdisj a ha (hab ▸ (herase b hb).1)⟩
    have hsub : (Q ++ Q'.erase x) ⊆ c.voterIds := by
      intro v hv
      rcases List.mem_append.mp hv with h | h
      · exact s1 v h
      · obtain ⟨hq, hne⟩ := herase v h
        rcases (hadj v).mp (s2 v hq) with e | e
        · exact absurd e hne
        · exact e
    have hlen := List.Nodup.length_le_of_subset hnd12 hsub
    have her : Q'.length ≤ (Q'.erase x).length + 1 := by
      rw [List.length_erase]; split <;> omega
    rw [List.length_append] at hlen
    unfold Config.hasQuorum at q1 q2
    simp only [decide_eq_true_eq] at q1 q2
    omega

/-- … and configurations TWO changes apart need not: a quorum of {1,2,3} and a quorum of
    {1,2,3,4,5} with no common member. This is the arithmetic behind known finding S4 (nodes two
    configurations apart: followers adopt a configuration when applied, leaders when appended). -/
theorem C09_two_apart_quorums_can_be_disjoint :
    let c : Config := ⟨1, [(1, true), (2, true), (3, true)]⟩
    let c2 : Config := ⟨3, [(1, true), (2, true), (3, true), (4, true), (5, true)]⟩
    c.hasQuorum [1, 2].length = true ∧ c2.hasQuorum [3, 4, 5].length = true ∧
      (∀ v ∈ [1, 2], c.isVoter v = true) ∧ (∀ v ∈ [3, 4, 5], c2.isVoter v = true) ∧
      ∀ v, ¬ (v ∈ [1, 2] ∧ v ∈ [3, 4, 5]) := by
  refine ⟨by decide, by decide, by decide, by decide, ?_⟩
  intro v ⟨h1, h2⟩
  simp only [List.mem_cons, List.mem_nil_iff, or_false] at h1 h2
  omega

/-- **A non-voting leader does not count itself** (fix S24: `AddServer(leader, …, false)` demotes the
    running leader, which keeps leading): for commitment it needs a `hasQuorum` set of OTHER members
    that are voters, and a round it starts confirms its leadership only through their answers. -/
theorem C09_nonvoting_leader_does_not_count_itself (n : Node) (now : Nat) (hnv : n.config.isVoter n.id = false)
    (h : n.commitIndex < (n.commitStep now).1.commitIndex) :
    n.config.hasQuorum (n.matchers (n.commitStep now).1.commitIndex).length = true ∧
    ∀ f ∈ n.matchers (n.commitStep now).1.commitIndex, n.config.isVoter f.id = true ∧ f.id ≠ n.id := by
  obtain ⟨_, _, e, _, _, hq, hall⟩ := C04_commit_rule n now h
  have hs : n.selfCount = 0 := by unfold Node.selfCount; rw [hnv]; simp
  rw [hs, Nat.zero_add] at hq
  exact ⟨hq, fun f hf => ⟨(hall f hf).1, (hall f hf).2.1⟩⟩

/-- … and the counter of a new round starts at 0 for it. -/
theorem C09_nonvoting_leader_round_starts_empty (n : Node) (now : Nat) (hnv : n.config.isVoter n.id = false) :
    (n.sendAEToPeers now).1.aeRounds = (n.nextRound, 0, n.readSeq) :: n.aeRounds := by
  have := (sendAEToPeers_reads n now).2.1
  rw [this]
  unfold Node.selfCount
  rw [hnv]; simp

/-- the state used by the S3 witness: a leader of five voters that has committed in its term -/
def exS3 : Node :=
  { id := 1, role := .leader, term := 2, commitIndex := 2, lastApplied := 2,
    config := ⟨1, [(1, true), (2, true), (3, true), (4, true), (5, true)]⟩,
    committed := some ⟨1, [(1, true), (2, true), (3, true), (4, true), (5, true)]⟩,
    log := { ents := [⟨1, 1, kConfig, 0, some ⟨1, [(1, true), (2, true), (3, true), (4, true), (5, true)]⟩⟩, ⟨2, 2, kNoop, 0, none⟩] } }

/-- **The defect behind S3, stated on the model**: after an accepted `RemoveServer 2` the
    leader's configuration is unchanged, so the change is not "pending"; `RemoveServer 3`
    is accepted at once and the configuration it appends still contains server 2 (lost
    update). Replayed on the real code by the E4 scenario `S3-lost-removal`. -/
theorem C09_counterexample_removal_not_pending :
    (exS3.removeServer 0 2).2.2 = .accepted 3 ∧
    ((exS3.removeServer 0 2).1.removeServer 0 3).2.2 = .accepted 4 ∧
    (((exS3.removeServer 0 2).1.removeServer 0 3).1.log.ents.getLast?.bind (·.cfg)).map (·.isMember 2) = some true := by
  decide

end Raft
