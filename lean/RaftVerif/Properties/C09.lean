/-
  Properties/C09.lean — membership changes (node-level statements; known findings).

  Proved for every node state: non-voting members never count — `hasQuorum` compares
  with the number of *voters*; the commit scan counts voters' match indices only; a
  non-voter never starts an election and no vote request is ever built for or by a
  non-voter; a reply from a non-voter neither confirms leadership nor renews the lease
  (C05_nonvoter_never_confirms). Quorums of one configuration intersect in a voter
  (quorums_intersect). The cluster-level statement — safety under interleaved
  add/remove — is FALSE of this code (DESIGN.md S3, S4: followers adopt a configuration
  when applied, the leader when appended; a removal is not pending): the witnesses are
  replayed on the real code by E4 (directed scenarios S3, S4) and listed as known
  findings; a different violation is still reported.
-/
import RaftVerif.Properties.C05
import RaftVerif.Proofs.ElectionSafety
import RaftVerif.Proofs.LeaderSpecs
set_option linter.unusedSimpArgs false
namespace Raft
open Node

/-- **`hasQuorum` counts voters only**: it is "more than half of the voters", however
    many non-voting members the configuration has. -/
theorem C09_quorum_counts_voters (c : Config) (count : Nat) :
    c.hasQuorum count = true ↔ 2 * count > c.voters ∨ (2 * count = c.voters ∧ False) ∨ count > c.voters / 2 := by
  unfold Config.hasQuorum
  simp only [decide_eq_true_eq, and_false, false_or]
  constructor
  · intro h; right; exact h
  · intro h; rcases h with h | h
    · omega
    · exact h

/-- **A non-voter never campaigns.** -/
theorem C09_nonvoter_never_campaigns (n : Node) (now : Nat) (h : n.config.isVoter n.id = false) :
    n.election now = (n, []) := by
  unfold election; simp [h]

/-- **No vote request is built for, or by, a non-voter.** -/
theorem C09_no_vote_request_for_nonvoter (n : Node) (peer : Nat) (pv : Bool)
    (h : n.config.isVoter peer = false ∨ n.config.isVoter n.id = false) : n.prepareRV peer pv = none := by
  unfold prepareRV; simp [h]

/-- **Commitment counts voters only**: every follower the commit rule counts is a voter. -/
theorem C09_commit_counts_voters_only (n : Node) (index : Nat) :
    ∀ f ∈ n.matchers index, n.config.isVoter f.id = true := by
  intro f hf
  unfold matchers at hf
  obtain ⟨_, hp⟩ := List.mem_filter.mp hf
  simp only [Bool.and_eq_true, decide_eq_true_eq] at hp
  exact hp.1.2

/-- **Two quorums of one configuration share a voter.** -/
theorem C09_quorums_of_one_configuration_intersect (cfg : Config) (hnd : cfg.voterIds.Nodup) (Q1 Q2 : List Nat)
    (h1 : Q1.Nodup) (h2 : Q2.Nodup) (s1 : ∀ v ∈ Q1, cfg.isVoter v = true) (s2 : ∀ v ∈ Q2, cfg.isVoter v = true)
    (q1 : cfg.hasQuorum Q1.length = true) (q2 : cfg.hasQuorum Q2.length = true) : ∃ v, v ∈ Q1 ∧ v ∈ Q2 :=
  Cluster.quorums_intersect cfg hnd Q1 Q2 h1 h2 s1 s2 q1 q2

/-- the state used by the S3 witness: a leader of five voters that has committed in its term -/
def exS3 : Node :=
  { id := 1, role := .leader, term := 2, commitIndex := 2, lastApplied := 2,
    config := ⟨1, [(1, true), (2, true), (3, true), (4, true), (5, true)]⟩,
    committed := some ⟨1, [(1, true), (2, true), (3, true), (4, true), (5, true)]⟩,
    log := { ents := [⟨1, 1, kConfig, 0, some ⟨1, [(1, true), (2, true), (3, true), (4, true), (5, true)]⟩⟩, ⟨2, 2, kNoop, 0, none⟩] } }

/-- **The defect behind S3, stated on the model**: after an accepted `RemoveServer 2` the
    leader's configuration is unchanged, so the change is not "pending"; `RemoveServer 3`
    is accepted at once and the configuration it appends still contains server 2 (lost
    update). Replayed on the real code by the E4 scenario `S3-lost-removal`. -/
theorem C09_counterexample_removal_not_pending :
    (exS3.removeServer 0 2).2.2 = .accepted 3 ∧
    ((exS3.removeServer 0 2).1.removeServer 0 3).2.2 = .accepted 4 ∧
    (((exS3.removeServer 0 2).1.removeServer 0 3).1.log.ents.getLast?.bind (·.cfg)).map (·.isMember 2) = some true := by
  decide

end Raft
