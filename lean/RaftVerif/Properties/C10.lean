/-
  Properties/C10.lean — snapshots are exact (model with the state machine as the list of
  operation indices applied to it).

  `FsmExact`: the state machine holds exactly the committed operations up to
  `lastApplied`. It is preserved by every step of the apply loop, so a snapshot whose
  content is captured in the state in which its label was fixed (no apply scheduled in
  between: `snapshotSerial`) contains exactly the operations up to its label. The code
  captures the content with the lock released (known finding S9), so the unrestricted
  statement is FALSE: `C10_counterexample_apply_between_label_and_content` is the
  witness, replayed on the real code by the E4 scenario S9 (and found by the snapshot
  walks); restore + replay then applies an operation twice.
-/
import RaftVerif.Model.Snapshot
import RaftVerif.Proofs.LeaderSpecs
import RaftVerif.Proofs.ReplSafety
set_option linter.unusedSimpArgs false
set_option linter.unusedVariables false
namespace Raft
open Node

/-- the committed operation entries: `ops` lists their indices in increasing order -/
def FsmExact (ops : List Nat) (x : NodeF) : Prop := x.fsm = ops.filter (· ≤ x.node.lastApplied)

/-- the node's log agrees with the committed sequence on which indices are operations -/
def LogAgrees (ops : List Nat) (n : Node) : Prop :=
  ∀ i e, n.log.get? i = some e → e.index = i ∧ (e.kind = kOp ↔ i ∈ ops)

theorem filter_le_succ_of_mem (ops : List Nat) (hs : ops.Pairwise (· < ·)) (k : Nat) (hk : k + 1 ∈ ops) :
    ops.filter (· ≤ k + 1) = ops.filter (· ≤ k) ++ [k + 1] := by
  induction ops with
  | nil => simp at hk
  | cons a as ih =>
    rw [List.pairwise_cons] at hs
    rcases List.mem_cons.mp hk with h | h
    · -- the head is k+1: everything after it is larger
      subst h
      have hrest : ∀ b ∈ as, ¬ b ≤ k + 1 := fun b hb => by have := hs.1 b hb; omega
      have hrest' : ∀ b ∈ as, ¬ b ≤ k := fun b hb => by have := hs.1 b hb; omega
      have f1 : as.filter (· ≤ k + 1) = [] := List.filter_eq_nil_iff.mpr (fun b hb => by simpa using hrest b hb)
      have f2 : as.filter (· ≤ k) = [] := List.filter_eq_nil_iff.mpr (fun b hb => by simpa using hrest' b hb)
      simp [List.filter_cons, f1, f2]
    · have hlt := hs.1 (k + 1) h
      have ha : a ≤ k := by omega
      have := ih hs.2 h
      simp [List.filter_cons, ha, show a ≤ k + 1 by omega, this]

theorem filter_le_succ_of_not_mem (ops : List Nat) (k : Nat) (hk : k + 1 ∉ ops) :
    ops.filter (· ≤ k + 1) = ops.filter (· ≤ k) := by
  apply List.filter_congr
  intro b hb
  have : b ≠ k + 1 := fun h => hk (h ▸ hb)
  simp only [decide_eq_decide]
  omega

/-- **Exactness is an invariant of the apply loop.** -/
theorem C10_apply_keeps_exact (ops : List Nat) (hs : ops.Pairwise (· < ·)) (x : NodeF) (now : Nat)
    (hl : LogAgrees ops x.node) (he : FsmExact ops x) : FsmExact ops (x.apply now) := by
  have hk := applyStep_kinds x.node now
  unfold NodeF.apply FsmExact at *
  unfold ApplyOutcomeOK at hk
  generalize x.node.applyStep now = r at hk ⊢
  obtain ⟨n', eff, out⟩ := r
  simp only at hk ⊢
  cases out with
  | none => simp only at hk ⊢; rw [hk]; exact he
  | noop i =>
    simp only at hk ⊢
    obtain ⟨h1, e, hg, hkind⟩ := hk
    have hnot : x.node.lastApplied + 1 ∉ ops := fun hm => by
      have := ((hl _ e hg).2).mpr hm; rw [hkind] at this; exact absurd this (by decide)
    rw [h1, filter_le_succ_of_not_mem ops _ hnot]; exact he
  | config i c a =>
    simp only at hk ⊢
    obtain ⟨h1, e, hg, hkind⟩ := hk
    have hnot : x.node.lastApplied + 1 ∉ ops := fun hm => by
      have := ((hl _ e hg).2).mpr hm; rw [hkind] at this; exact absurd this (by decide)
    rw [h1, filter_le_succ_of_not_mem ops _ hnot]; exact he
  | op e f =>
    simp only at hk ⊢
    obtain ⟨h1, hg, hkind⟩ := hk
    obtain ⟨hidx, hiff⟩ := hl _ e hg
    have hm : x.node.lastApplied + 1 ∈ ops := hiff.mp hkind
    rw [h1, filter_le_succ_of_mem ops hs _ hm, he, hidx]

/-- **A serially taken snapshot is exact**: when nothing is scheduled between fixing the
    label and capturing the content, the content is the effect of exactly the committed
    operations up to the label (the label being the applied index, next theorem). -/
theorem C10_serial_snapshot_exact (ops : List Nat) (x : NodeF) (l : SnapLabel)
    (he : FsmExact ops x) (hidx : l.index = x.node.lastApplied) :
    x.snapshotContent = ops.filter (· ≤ l.index) := by
  unfold NodeF.snapshotContent
  rw [hidx]; exact he

/-- the label `snapshotBegin` fixes is the entry at the applied index -/
theorem C10_label_is_applied_index (ops : List Nat) (n : Node) (l : SnapLabel) (eff : List Effect) (hl : LogAgrees ops n)
    (h : n.snapshotBegin = some (l, eff)) (hnf : Effect.fatal ∉ eff) : l.index = n.lastApplied := by
  unfold snapshotBegin at h
  split at h; · simp at h
  cases hc : n.committed with
  | none => rw [hc] at h; simp at h
  | some cc =>
    rw [hc] at h
    simp only at h
    split at h; · simp at h
    cases hg : n.log.get? n.lastApplied with
    | none => rw [hg] at h; simp only [Option.some.injEq, Prod.mk.injEq] at h; rw [← h.2] at hnf; simp at hnf
    | some e =>
      rw [hg] at h
      simp only [Option.some.injEq, Prod.mk.injEq] at h
      rw [← h.1]; exact (hl _ e hg).1

/-! ### "Consequently": restore an exact snapshot, replay the following entries -/

/-- the apply loop, `k` times -/
def NodeF.applyN (x : NodeF) (now : Nat) : Nat → NodeF
  | 0 => x
  | k + 1 => (x.apply now).applyN now k

theorem apply_node (x : NodeF) (now : Nat) : (x.apply now).node = (x.node.applyStep now).1 := by
  unfold NodeF.apply
  simp only
  split <;> rfl

theorem logAgrees_apply (ops : List Nat) (x : NodeF) (now : Nat) (hl : LogAgrees ops x.node) :
    LogAgrees ops (x.apply now).node := by
  unfold LogAgrees at *
  rw [apply_node, (applyStep_spec x.node now).1]
  exact hl

/-- exactness survives any number of rounds of the apply loop -/
theorem C10_exact_after_any_number_of_applies (ops : List Nat) (hs : ops.Pairwise (· < ·)) (now : Nat) :
    ∀ (k : Nat) (x : NodeF), LogAgrees ops x.node → FsmExact ops x → FsmExact ops (x.applyN now k)
  | 0, x, _, he => he
  | k + 1, x, hl, he =>
    C10_exact_after_any_number_of_applies ops hs now k (x.apply now) (logAgrees_apply ops x now hl)
      (C10_apply_keeps_exact ops hs x now hl he)

/-- a state machine restored from a snapshot: content and label go in together (what
    `InstallSnapshot` and a restart do) -/
def NodeF.restored (n : Node) (label : Nat) (content : List Nat) : NodeF :=
  { node := { n with lastApplied := label }, fsm := content }

/-- **Restore + replay = apply everything once, in order.** `y` starts from ANY exact snapshot
    (content = the operations up to its label) on any node whose log agrees with the committed
    sequence, and runs the apply loop any number of times; `x` is any replica that is exact (e.g.
    one that applied every entry from the beginning). Whenever the two have applied the same
    index they hold the same state: nothing was applied twice, nothing skipped. -/
theorem C10_restore_then_replay_equals_apply_all (ops : List Nat) (hs : ops.Pairwise (· < ·)) (now k : Nat)
    (n : Node) (label : Nat) (hl : LogAgrees ops n) (x : NodeF) (hx : FsmExact ops x)
    (hsame : x.node.lastApplied = ((NodeF.restored n label (ops.filter (· ≤ label))).applyN now k).node.lastApplied) :
    ((NodeF.restored n label (ops.filter (· ≤ label))).applyN now k).fsm = x.fsm := by
  have hy : FsmExact ops ((NodeF.restored n label (ops.filter (· ≤ label))).applyN now k) :=
    C10_exact_after_any_number_of_applies ops hs now k _ (by unfold NodeF.restored LogAgrees at *; exact hl) (by unfold NodeF.restored FsmExact; rfl)
  unfold FsmExact at hy hx
  rw [hy, hx, hsame]

/-- the state used by the S9 witness: a sole voter that has applied index 3 (an operation),
    with index 4 (an operation) committed but not yet applied -/
def exS9 : NodeF :=
  { node := { id := 1, role := .leader, term := 2, commitIndex := 4, lastApplied := 3,
              config := ⟨1, [(1, true)]⟩, committed := some ⟨1, [(1, true)]⟩,
              log := { ents := [⟨1, 1, kConfig, 0, some ⟨1, [(1, true)]⟩⟩, ⟨2, 2, kNoop, 0, none⟩, ⟨3, 2, kOp, 31, none⟩, ⟨4, 2, kOp, 41, none⟩] } },
    fsm := [3] }

/-- **Witness of the known finding S9**: the label is fixed (3), then the apply loop runs
    once, then the content is captured: the snapshot labelled 3 contains operation 4. -/
theorem C10_counterexample_apply_between_label_and_content :
    (exS9.node.snapshotBegin).map (·.1.index) = some 3 ∧
    ((exS9.apply 0).snapshotContent) = [3, 4] ∧ [3, 4] ≠ [3, 4].filter (· ≤ 3) := by
  decide

/-- non-vacuity of the restore + replay theorem: the node of the S9 example restored from the exact
    snapshot labelled 3, one round of the apply loop: operation 4 is applied, once -/
example : ((NodeF.restored exS9.node 3 ([3, 4].filter (· ≤ 3))).applyN 0 1).fsm = [3, 4] ∧
    ((NodeF.restored exS9.node 3 ([3, 4].filter (· ≤ 3))).applyN 0 1).node.lastApplied = 4 := by decide

/-! ## Cluster level: what an exact snapshot labelled `i` must contain is the same for every
    node and at every time

  On the replication-layer model (7.1) the content of an exact snapshot labelled `i` taken
  by node `a` is the image of its first `i` log entries, `i ≤ commit` (only applied entries
  are captured). Whatever node takes it and whenever, that prefix is the same list: a
  snapshot taken on one node and installed on another, or restored after a restart much
  later, stands for exactly the entries every node applies at positions `1..i`. -/

theorem C10_exact_snapshot_is_node_and_time_independent {cfg : Config} (hnd : cfg.voterIds.Nodup)
    {s s' : Repl.AState} (hr : Repl.Reachable cfg s) (hfrom : Repl.ReachableFrom cfg s s') (a b i : Nat)
    (ha : i ≤ (s.nodes a).commit) (hb : i ≤ (s'.nodes b).commit) :
    (s.nodes a).log.take i = (s'.nodes b).log.take i := by
  have hi := Repl.inv_reachable hnd hr
  have hr' : Repl.Reachable cfg s' := Repl.reachable_trans hr hfrom
  have hi' := Repl.inv_reachable hnd hr'
  have hca := (hi.commit_ok a).1
  have hcb := (hi'.commit_ok b).1
  have key : ∀ (x y : List Repl.AEntry), x <+: y → i ≤ x.length → x.take i = y.take i := by
    intro x y hxy hx
    obtain ⟨t, rfl⟩ := hxy
    rw [List.take_append_of_le_length hx]
  have e1 : ((s.nodes a).log.take (s.nodes a).commit).take i = (s.nodes a).log.take i := by
    rw [List.take_take]; congr 1; omega
  have e2 : ((s'.nodes b).log.take (s'.nodes b).commit).take i = (s'.nodes b).log.take i := by
    rw [List.take_take]; congr 1; omega
  rcases Repl.state_machine_safety hnd hr hfrom a b with h | h
  · rw [← e1, ← e2]; exact key _ _ h (by rw [List.length_take]; omega)
  · rw [← e1, ← e2]; exact (key _ _ h (by rw [List.length_take]; omega)).symm

end Raft
