/-
  Properties/C11.lean — compaction and snapshot installation (handler level).

  For every node state and every InstallSnapshot request: the first locked section never
  touches the log, the commit index or the applied index; a snapshot that is not newer
  than what the node has applied or already holds changes nothing; after a restore the
  node adopts exactly the label (monotone whenever the label is not below the commit
  index, which log matching guarantees for every request a leader can send — see
  DESIGN.md section 11); compaction at a matching boundary keeps every entry above the label.
  Chunk assembly is exact *provided each accepted request carries the label of the file in
  progress*; without that proviso it is FALSE of this code (known finding S20: the handler
  never compares the labels; it cannot be repaired without editing
  TestInstallSnapshotSuccess): `C11_counterexample_chunk_mixing` is the witness, replayed
  on the real code by E3-install and the E4 scenario S20.
-/
import RaftVerif.Proofs.Compaction
import RaftVerif.Model.Snapshot
import RaftVerif.Proofs.LogLemmas
import RaftVerif.Proofs.NodeLemmas
import RaftVerif.Proofs.ReplSnapshot
import RaftVerif.Proofs.ReplExample
set_option linter.unusedSimpArgs false
set_option linter.unusedVariables false
namespace Raft
open Node Log

theorem isEnter_frame (n : Node) (now : Nat) (q : ISReq) :
    (n.isEnter now q).1.log = n.log ∧ (n.isEnter now q).1.commitIndex = n.commitIndex ∧
    (n.isEnter now q).1.lastApplied = n.lastApplied ∧ (n.isEnter now q).1.snapIndex = n.snapIndex ∧
    (n.isEnter now q).1.snapTerm = n.snapTerm ∧ (n.isEnter now q).1.snaps = n.snaps := by
  unfold isEnter
  simp only
  split <;> split <;> exact ⟨rfl, rfl, rfl, rfl, rfl, rfl⟩

/-- agreement on log, commit index and applied index -/
def SameLCA (n m : Node) : Prop := m.log = n.log ∧ m.commitIndex = n.commitIndex ∧ m.lastApplied = n.lastApplied

theorem isDiscardOlder_lca (n : Node) (q : ISReq) : SameLCA n (n.isDiscardOlder q).1 := by
  unfold isDiscardOlder
  cases n.recv with
  | none => exact ⟨rfl, rfl, rfl⟩
  | some f => simp only; split <;> exact ⟨rfl, rfl, rfl⟩

theorem isOpenFile_lca (n : Node) (q : ISReq) : SameLCA n (n.isOpenFile q).1 := by
  unfold isOpenFile
  cases n.recv with
  | none => exact ⟨rfl, rfl, rfl⟩
  | some f => exact ⟨rfl, rfl, rfl⟩

theorem isClose_lca (n : Node) (f : RecvSnap) (q : ISReq) : SameLCA n (n.isClose f q).1 := by
  unfold isClose
  simp only
  split
  · split <;> exact ⟨rfl, rfl, rfl⟩
  · exact ⟨rfl, rfl, rfl⟩

theorem SameLCA.trans {a b c : Node} (h1 : SameLCA a b) (h2 : SameLCA b c) : SameLCA a c :=
  ⟨h2.1.trans h1.1, h2.2.1.trans h1.2.1, h2.2.2.trans h1.2.2⟩

/-- **The first section never touches log, commit index or applied index**, whatever the
    request and whatever it does to files. -/
theorem C11_first_section_keeps_log_commit_applied {n n' : Node} {now : Nat} {q : ISReq} {r : ISResp}
    {eff : List Effect} {nx : ISNext} (h : n.installA now q = some (n', r, eff, nx)) :
    n'.log = n.log ∧ n'.commitIndex = n.commitIndex ∧ n'.lastApplied = n.lastApplied := by
  obtain ⟨e1, e2, e3, _, _, _⟩ := isEnter_frame n now q
  have h0 : SameLCA n (n.isEnter now q).1 := ⟨e1, e2, e3⟩
  have h1 := h0.trans (isDiscardOlder_lca (n.isEnter now q).1 q)
  have h2 := h1.trans (isOpenFile_lca ((n.isEnter now q).1.isDiscardOlder q).1 q)
  unfold installA at h
  split at h; · simp at h
  split at h
  · injection h with h; injection h with h1' _; subst h1'; exact ⟨rfl, rfl, rfl⟩
  simp only at h
  split at h
  · injection h with h; injection h with h1' _; subst h1'; exact h0
  split at h
  · injection h with h; injection h with h1' _; subst h1'; exact h2
  split at h
  · injection h with h; injection h with h1' _; subst h1'; exact h2
  · injection h with h; injection h with h1' _; subst h1'
    exact SameLCA.trans (b := { (((n.isEnter now q).1.isDiscardOlder q).1.isOpenFile q).1 with
        recv := some { (((n.isEnter now q).1.isDiscardOlder q).1.isOpenFile q).2.2 with
          written := (((n.isEnter now q).1.isDiscardOlder q).1.isOpenFile q).2.2.written + q.data.length,
          data := (((n.isEnter now q).1.isDiscardOlder q).1.isOpenFile q).2.2.data ++ q.data } })
      h2 (isClose_lca _ _ q)

/-- **Never install what is not newer.** A snapshot whose label is not above the node's
    applied index or its current boundary only updates term/contact bookkeeping: no file is
    touched, the boundary, the log and the visible snapshots stay as they are. -/
theorem C11_not_newer_changes_nothing {n n' : Node} {now : Nat} {q : ISReq} {r : ISResp} {eff : List Effect} {nx : ISNext}
    (h : n.installA now q = some (n', r, eff, nx)) (hold : n.snapIndex ≥ q.lastIndex ∨ n.lastApplied ≥ q.lastIndex) :
    nx = .reply ∧ n'.log = n.log ∧ n'.snapIndex = n.snapIndex ∧ n'.snapTerm = n.snapTerm ∧ n'.snaps = n.snaps ∧
    n'.lastApplied = n.lastApplied ∧ n'.commitIndex = n.commitIndex := by
  obtain ⟨e1, e2, e3, e4, e5, e6⟩ := isEnter_frame n now q
  unfold installA at h
  split at h; · simp at h
  split at h
  · injection h with h; injection h with h1 h2; injection h2 with _ h3; injection h3 with _ h4; subst h1 h4
    exact ⟨rfl, rfl, rfl, rfl, rfl, rfl, rfl⟩
  simp only at h
  have hold' : (n.isEnter now q).1.snapIndex ≥ q.lastIndex ∨ (n.isEnter now q).1.lastApplied ≥ q.lastIndex := by
    rw [e4, e3]; exact hold
  rw [if_pos hold'] at h
  injection h with h; injection h with h1 h2; injection h2 with _ h3; injection h3 with _ h4; subst h1 h4
  exact ⟨rfl, e1, e4, e5, e6, e3, e2⟩

/-- **After the restore the node stands exactly at the label.** Monotone whenever the label
    is not below the commit index (true of every request a leader can send: a conflicting
    boundary at or below the commit index would contradict log matching). -/
theorem C11_restore_adopts_label (n : Node) (now : Nat) (q : ISReq) (hs : n.role ≠ .shutdown) :
    (n.installC now q).1.lastApplied = q.lastIndex ∧ (n.installC now q).1.commitIndex = q.lastIndex ∧
    (n.installC now q).1.log = n.log.discard q.lastIndex q.lastTerm ∧
    (n.commitIndex ≤ q.lastIndex → n.commitIndex ≤ (n.installC now q).1.commitIndex) ∧
    (n.lastApplied ≤ q.lastIndex → n.lastApplied ≤ (n.installC now q).1.lastApplied) := by
  unfold installC
  simp only [hs, if_false]
  have key : ∀ (m : Node) (c : Config), (m.applyConfiguration now c).1.lastApplied = m.lastApplied ∧
      (m.applyConfiguration now c).1.commitIndex = m.commitIndex ∧ (m.applyConfiguration now c).1.log = m.log := by
    intro m c
    unfold applyConfiguration
    have hla : ∀ (x : Option Config), (m.nextConfiguration now x).1.lastApplied = m.lastApplied := by
      intro x; unfold nextConfiguration
      cases x with
      | none => rfl
      | some c =>
        simp only
        split
        · rfl
        · split <;> rfl
    cases m.committed with
    | none => exact ⟨hla _, nextConfiguration_commitIndex .., nextConfiguration_log ..⟩
    | some cc =>
      simp only
      split
      · exact ⟨rfl, rfl, rfl⟩
      · exact ⟨hla _, nextConfiguration_commitIndex .., nextConfiguration_log ..⟩
  obtain ⟨k1, k2, k3⟩ := key { n with lastApplied := q.lastIndex, commitIndex := q.lastIndex, log := n.log.discard q.lastIndex q.lastTerm } q.config
  refine ⟨k1, k2, k3, fun h => by rw [k2]; exact h, fun h => by rw [k1]; exact h⟩

/-- **Compaction keeps the suffix.** Compacting a well-formed log at a contained index
    keeps every entry above it, and the last index. -/
theorem C11_compact_keeps_suffix {l l' : Log} {i : Nat} (hw : l.WF) (hc : l.compact i = some l') :
    l'.base = i ∧ (∀ j, i < j → l'.get? j = l.get? j) ∧ l'.lastIndex = l.lastIndex ∧ l'.WF := by
  unfold compact at hc
  split at hc
  · rename_i hcont
    have hb := contains_iff.mp hcont
    have hk : i - l.base - 1 < l.ents.length := by omega
    rw [List.getElem?_eq_getElem hk] at hc
    simp only [Option.some.injEq] at hc
    have hidx := contig_getElem hw _ hk
    have hbase : l'.base = i := by rw [← hc]; simp only; rw [hidx]; omega
    have hents : l'.ents = l.ents.drop (i - l.base) := by rw [← hc]
    have hwf' : l'.WF := by
      unfold WF; rw [hbase, hents]
      have := contig_drop hw (i - l.base) (by omega)
      rwa [show l.base + (i - l.base) = i by omega] at this
    refine ⟨hbase, ?_, ?_, hwf'⟩
    · intro j hj
      by_cases hjc : l.contains j = true
      · have hjb := contains_iff.mp hjc
        have hjc' : l'.contains j = true := by
          rw [contains_iff, hbase, hents, List.length_drop]; omega
        unfold get?
        simp only [hjc, hjc', if_true, hbase, hents]
        rw [List.getElem?_drop]
        congr 1; omega
      · have hjc0 : l.contains j = false := by simpa using hjc
        have hjc' : l'.contains j = false := by
          cases hh : l'.contains j with
          | false => rfl
          | true =>
            have := contains_iff.mp hh
            rw [hbase, hents, List.length_drop] at this
            have : l.contains j = true := by rw [contains_iff]; omega
            rw [this] at hjc0; simp at hjc0
        simp [get?, hjc0, hjc']
    · rw [wf_lastIndex hwf', wf_lastIndex hw, hbase, hents, List.length_drop]; omega
  · simp at hc

/-- compaction keeps the last term too (the boundary entry's term becomes the base term) -/
theorem compact_lastTerm {l l' : Log} {i : Nat} (hc : l.compact i = some l') : l'.lastTerm = l.lastTerm := by
  unfold compact at hc
  split at hc
  · rename_i hcont
    have hb := contains_iff.mp hcont
    have hk : i - l.base - 1 < l.ents.length := by omega
    rw [List.getElem?_eq_getElem hk] at hc
    simp only [Option.some.injEq] at hc
    subst hc
    unfold lastTerm
    simp only [List.getLast?_drop]
    by_cases hle : l.ents.length ≤ i - l.base
    · simp only [hle, if_true]
      have hlen : i - l.base = l.ents.length := by omega
      have : l.ents.getLast? = some (l.ents[i - l.base - 1]) := by
        rw [List.getLast?_eq_getElem?]
        rw [List.getElem?_eq_getElem (by omega)]
        congr 2; omega
      rw [this]
    · simp only [hle, if_false]
      cases hg : l.ents.getLast? with
      | some e => rfl
      | none =>
        have : l.ents = [] := List.getLast?_eq_none_iff.mp hg
        rw [this] at hk; simp at hk
  · simp at hc

theorem becomeFollower_withLog (n : Node) (l' : Log) (now ld t : Nat) :
    Node.becomeFollower { n with log := l' } now ld t =
      ({ (n.becomeFollower now ld t).1 with log := l' }, (n.becomeFollower now ld t).2) := by
  unfold Node.becomeFollower Node.resetSnapshots
  rfl

theorem rvEnter_withLog (n : Node) (l' : Log) (now : Nat) (q : RVReq) :
    rvEnter { n with log := l' } now q = ({ (rvEnter n now q).1 with log := l' }, (rvEnter n now q).2) := by
  unfold rvEnter
  split
  · exact becomeFollower_withLog n l' now q.candidate q.term
  · rfl

/-- the vote handler reads the log only through its last index and last term -/
theorem requestVote_log_irrelevant (n : Node) (l' : Log) (now : Nat) (q : RVReq)
    (hi : l'.lastIndex = n.log.lastIndex) (ht : l'.lastTerm = n.log.lastTerm) :
    requestVote { n with log := l' } now q =
      (requestVote n now q).map (fun r => ({ r.1 with log := l' }, r.2.1, r.2.2)) := by
  have hlog := rvEnter_log n now q
  unfold requestVote
  rw [rvEnter_withLog]
  simp only [Node.leaseValid, Node.contactFresh]
  split
  · rfl
  · split
    · rfl
    · split
      · rfl
      · simp only [hi, ht, hlog]
        split
        · rfl
        · split
          · rfl
          · split <;> rfl

/-- **A compacted node votes exactly as a node holding the full log.** For every node state,
    every compaction index the log contains and every vote request (real or prevote): the
    answer, the storage effects and the resulting state are those of the node with the full
    log — only the log differs, and it is the compacted one. -/
theorem C11_compaction_invisible_to_the_vote_handler (n : Node) (l' : Log) (i now : Nat) (q : RVReq)
    (hw : n.log.WF) (hc : n.log.compact i = some l') :
    requestVote { n with log := l' } now q =
      (requestVote n now q).map (fun r => ({ r.1 with log := l' }, r.2.1, r.2.2)) :=
  requestVote_log_irrelevant n l' now q (C11_compact_keeps_suffix hw hc).2.2.1 (compact_lastTerm hc)


/-- the boundary entry of a compaction: what `compact` makes the new base -/
theorem compact_boundary {l l' : Log} {i : Nat} (hc : l.compact i = some l') :
    ∃ e, l.get? i = some e ∧ l'.baseTerm = e.term ∧ l.contains i = true := by
  unfold compact at hc
  split at hc
  · rename_i hcont
    have hb := contains_iff.mp hcont
    have hk : i - l.base - 1 < l.ents.length := by omega
    rw [List.getElem?_eq_getElem hk] at hc
    simp only [Option.some.injEq] at hc
    refine ⟨l.ents[i - l.base - 1], ?_, by rw [← hc], hcont⟩
    unfold get?
    simp [hcont, List.getElem?_eq_getElem hk]
  · simp at hc

/-- **A compacted node makes the same previous-entry decisions as a node holding the full log.**
    `n` is any node whose log starts at its snapshot boundary; it compacts at a contained index `i`
    (what the end of a local snapshot does: log, boundary index and boundary term move together).
    For every AppendEntries request whose previous index is not below `i`, the previous-entry
    check accepts after the compaction exactly when it accepted before. (Rejections may carry a
    different hint: the conflict scan stops at the boundary. Requests with a previous index below
    `i` are answered "send from the boundary": the entries they ask about are in the snapshot.) -/
theorem C11_compacted_node_makes_the_same_prev_entry_decisions (n : Node) (l' : Log) (i : Nat) (q : AEReq)
    (hw : n.log.WF) (hb : n.log.base = n.snapIndex) (hc : n.log.compact i = some l') (hp : i ≤ q.prevIndex) :
    (aePrevCheck { n with log := l', snapIndex := i, snapTerm := l'.baseTerm } q = .ok ↔ aePrevCheck n q = .ok) := by
  obtain ⟨hbase, hsuf, hlast, hwf'⟩ := C11_compact_keeps_suffix hw hc
  obtain ⟨e, hge, hbt, hcont⟩ := compact_boundary hc
  have hci := contains_iff.mp hcont
  have hnext : l'.nextIndex = n.log.nextIndex := by unfold nextIndex; rw [hlast]
  have hli := wf_lastIndex hw
  unfold aePrevCheck
  simp only [hnext]
  have h1 : ¬ i > q.prevIndex := by omega
  have h1' : ¬ n.snapIndex > q.prevIndex := by omega
  rw [if_neg h1, if_neg h1']
  by_cases h2 : n.log.nextIndex ≤ q.prevIndex
  · rw [if_pos h2, if_pos h2]
  · rw [if_neg h2, if_neg h2]
    have h3' : ¬ (n.snapIndex = q.prevIndex ∧ n.snapTerm ≠ q.prevTerm) := by omega
    rw [if_neg h3']
    have h4' : n.snapIndex < q.prevIndex := by omega
    rw [if_pos h4']
    have hpc : n.log.contains q.prevIndex = true := by
      rw [contains_iff]; unfold nextIndex at h2; omega
    obtain ⟨pe, hpe⟩ := Option.isSome_iff_exists.mp (get?_isSome_of_contains hpc)
    by_cases hip : i = q.prevIndex
    · subst hip
      rw [hpe] at hge; injection hge with hge; subst hge
      simp only [hpe, hbt]
      by_cases ht : pe.term = q.prevTerm
      · simp [ht]
      · simp only [ht, ne_eq, not_false_eq_true, and_self, if_true, true_and]
        constructor
        · intro h; simp at h
        · intro h; split at h <;> simp at h
    · have hlt : i < q.prevIndex := by omega
      have h3 : ¬ (i = q.prevIndex ∧ l'.baseTerm ≠ q.prevTerm) := by omega
      rw [if_neg h3, if_pos hlt, hsuf q.prevIndex hlt, hpe]
      simp only
      by_cases ht : pe.term = q.prevTerm
      · simp [ht]
      · simp only [ht, ne_eq, not_false_eq_true, if_true]
        constructor
        · intro h; split at h <;> simp at h
        · intro h; split at h <;> simp at h

/-- non-vacuity: a three-entry log compacted at 2; a request with previous entry (2, term 1) -/
example : ({ base := 0, baseTerm := 0, ents := [⟨1, 1, 1, 11, none⟩, ⟨2, 1, 1, 12, none⟩, ⟨3, 2, 1, 13, none⟩] } : Log).compact 2 =
    some { base := 2, baseTerm := 1, ents := [⟨3, 2, 1, 13, none⟩] } := by decide

/-- `compact` produces a compacted log in the sense of Proofs/Compaction.lean -/
theorem compact_compacted {l l' : Log} {i : Nat} (hw : l.WF) (hc : l.compact i = some l') :
    Compacted l l' i l'.baseTerm := by
  have hbase := (C11_compact_keeps_suffix hw hc).1
  obtain ⟨_, _, _, hcont⟩ := compact_boundary hc
  have hb := contains_iff.mp hcont
  refine ⟨hbase, rfl, ?_, by omega, by omega⟩
  unfold compact at hc
  rw [if_pos hcont, List.getElem?_eq_getElem (by omega)] at hc
  simp only [Option.some.injEq] at hc
  rw [← hc]

/-- **A compacted node runs the merge loop and the accepting part of AppendEntries like a node
    holding the full log.** For every node state, every compaction index the log contains and every
    request whose entries lie above it: the accepting part has the same effects and leaves the same
    state; the resulting log is the full-log node's resulting log with the same prefix cut away.
    With `C11_compacted_node_makes_the_same_prev_entry_decisions` (the request is accepted by the
    one exactly when by the other) this is the handler's whole dependence on the log. -/
theorem C11_compacted_node_accepts_like_the_full_log (n : Node) (l' : Log) (i now : Nat) (q : AEReq)
    (hw : n.log.WF) (hc : n.log.compact i = some l') (hall : ∀ e ∈ q.entries, i < e.index) :
    ∃ L', aeAccept { n with log := l', snapIndex := i, snapTerm := l'.baseTerm } now q =
        ({ (aeAccept n now q).1 with log := L', snapIndex := i, snapTerm := l'.baseTerm }, (aeAccept n now q).2) ∧
      Compacted (aeAccept n now q).1.log L' i l'.baseTerm :=
  aeAccept_compacted n l' i l'.baseTerm now q hw (compact_compacted hw hc) hall

/-- **A compacted node accepts exactly the AppendEntries requests a node holding the full log
    accepts**, and answers with the same term. -/
theorem C11_compacted_node_accepts_exactly_the_same_requests (n : Node) (l' : Log) (i now : Nat) (q : AEReq)
    (hw : n.log.WF) (hb : n.log.base = n.snapIndex) (hc : n.log.compact i = some l') (hp : i ≤ q.prevIndex) :
    (appendEntries { n with log := l', snapIndex := i, snapTerm := l'.baseTerm } now q).map (fun r => (r.2.1.success, r.2.1.term)) =
      (appendEntries n now q).map (fun r => (r.2.1.success, r.2.1.term)) := by
  unfold appendEntries
  simp only
  by_cases hs : n.role = .shutdown
  · simp [hs]
  · simp only [hs, if_false]
    by_cases ht : q.term < n.term
    · simp [ht]
    · simp only [ht, if_false]
      rw [aeEnter_with3]
      simp only
      have hlog := aeEnter_log n now q
      have hsn := aeEnter_snapIndex n now q
      have key := C11_compacted_node_makes_the_same_prev_entry_decisions (aeEnter n now q).1 l' i q
        (by rw [hlog]; exact hw) (by rw [hlog, hsn]; exact hb) (by rw [hlog]; exact hc) hp
      cases h1 : aePrevCheck { (aeEnter n now q).1 with log := l', snapIndex := i, snapTerm := l'.baseTerm } q <;>
        cases h2 : aePrevCheck (aeEnter n now q).1 q <;> simp_all

/-- A file in progress is *honest* w.r.t. the snapshots `S` the senders hold when it is a
    prefix of the snapshot its own label names. -/
def RecvHonest (S : Nat → Nat → List Nat) (f : RecvSnap) : Prop :=
  f.written = f.data.length ∧ f.data = (S f.index f.term).take f.written

/-- **Chunks assemble exactly — under the label proviso.** If the file in progress is
    honest, the request's bytes are the slice of the snapshot named by the request's own
    label at the request's offset, and the request carries the label of the file in
    progress, then the file stays honest; so every file the handler closes is a prefix of
    the snapshot of its label (the whole of it when the sender's `Done` is truthful). -/
theorem C11_chunks_exact_partial (S : Nat → Nat → List Nat) (f : RecvSnap) (q : ISReq)
    (hf : RecvHonest S f) (hl : f.index = q.lastIndex ∧ f.term = q.lastTerm) (ho : q.offset = f.written)
    (hd : q.data = ((S q.lastIndex q.lastTerm).drop q.offset).take q.data.length) :
    RecvHonest S { f with written := f.written + q.data.length, data := f.data ++ q.data } := by
  obtain ⟨h1, h2⟩ := hf
  refine ⟨by simp [h1], ?_⟩
  simp only
  rw [hl.1, hl.2] at h2
  rw [hl.1, hl.2, List.take_add, ← h2, ← ho, ← hd]

/-- the witness state and requests of S20 -/
def exS20 : Node := { id := 1, term := 2, config := ⟨1, [(1, true), (2, true)]⟩, committed := some ⟨1, [(1, true), (2, true)]⟩ }
def exS20a : ISReq := { leaderId := 2, term := 2, lastIndex := 20, lastTerm := 2, config := ⟨1, [(1, true), (2, true)]⟩, offset := 0, data := [66, 66, 66, 66], isDone := false }
def exS20b : ISReq := { leaderId := 2, term := 2, lastIndex := 10, lastTerm := 1, config := ⟨1, [(1, true), (2, true)]⟩, offset := 4, data := [], isDone := true }

/-- **Witness of the known finding S20**: chunk 0 of snapshot (20, t2), then a late empty
    last chunk of the older snapshot (10, t1) at the coinciding offset: the file labelled 20
    is closed and becomes visible with the bytes of an unfinished transfer, and the node
    adopts boundary 10. -/
theorem C11_counterexample_chunk_mixing :
    ∃ n1 r1 e1 x1 n2 r2 e2 x2,
      exS20.installA 0 exS20a = some (n1, r1, e1, x1) ∧ n1.installA 1 exS20b = some (n2, r2, e2, x2) ∧
      n2.snaps = [{ index := 20, term := 2, data := [66, 66, 66, 66] }] ∧ n2.snapIndex = 10 := by
  refine ⟨_, _, _, _, _, _, _, _, rfl, rfl, by decide, by decide⟩

/-! ### Cluster level (Proofs/ReplSnapshot.lean)

    In the replication-layer model logs are whole (a compaction only drops what the snapshot
    stands for: C10). Installing the snapshot (i, log of the leader up to i) — keep the log if
    it holds the snapshot's last entry, otherwise discard it and continue from the snapshot —
    is, under log matching, exactly what the replication request "previous index 0, entries
    1..i" does. So an installation neither loses nor resurrects anything the safety theorems
    speak about: the state after it is a reachable state of the model of C01/C04/C06/C07. -/

/-- **An installation is a replication step of the safety model.** -/
theorem C11_install_is_replication {cfg : Config} (hnd : cfg.voterIds.Nodup) {s : Repl.AState} (hr : Repl.Reachable cfg s)
    (l n i stamp : Nat) (hl : (s.nodes l).role = .leader) (hi : i ≤ (s.nodes l).commit) (hn : n ≠ l)
    (ht : (s.nodes n).term ≤ (s.nodes l).term) :
    ∃ s1 s2, Repl.Step cfg s s1 ∧ Repl.Step cfg s1 s2 ∧
      (s2.nodes n).log = Repl.installLog (s.nodes n).log (s.nodes l).log i ∧
      (s2.nodes n).commit = max (s.nodes n).commit i ∧
      (s2.nodes n).term = (s.nodes l).term ∧ (∀ j, j ≠ n → s2.nodes j = s.nodes j) :=
  Repl.install_snapshot_simulated hnd hr l n i stamp hl hi hn ht

/-- **No committed state is lost, none is resurrected**: after an installation, in every later
    state, the applied prefixes of any two nodes (the installing one included) are comparable,
    and the installed node's log starts with the snapshot's prefix. -/
theorem C11_install_preserves_safety {cfg : Config} (hnd : cfg.voterIds.Nodup) {s : Repl.AState} (hr : Repl.Reachable cfg s)
    (l n i stamp : Nat) (hl : (s.nodes l).role = .leader) (hi : i ≤ (s.nodes l).commit) (hn : n ≠ l)
    (ht : (s.nodes n).term ≤ (s.nodes l).term) :
    ∃ s2, Repl.ReachableFrom cfg s s2 ∧
      (s2.nodes n).log = Repl.installLog (s.nodes n).log (s.nodes l).log i ∧
      (s2.nodes n).log.take i = (s.nodes l).log.take i ∧
      (s2.nodes n).commit = max (s.nodes n).commit i ∧
      ∀ s3, Repl.ReachableFrom cfg s2 s3 → ∀ a b,
        (s2.nodes a).log.take (s2.nodes a).commit <+: (s3.nodes b).log.take (s3.nodes b).commit ∨
        (s3.nodes b).log.take (s3.nodes b).commit <+: (s2.nodes a).log.take (s2.nodes a).commit := by
  obtain ⟨s2, hr2, hf2, hlog, hcom⟩ := Repl.install_snapshot_reachable hnd hr l n i stamp hl hi hn ht
  have hinv := Repl.inv_reachable hnd hr
  have hig : i ≤ (s.nodes l).log.length := by have := (hinv.commit_ok l).1; omega
  refine ⟨s2, hf2, hlog, ?_, hcom, fun s3 h3 a b => Repl.state_machine_safety hnd hr2 h3 a b⟩
  rw [hlog]
  apply Repl.installLog_prefix _ _ _ hig
  intro j hj1 hj2 hj3 hj4
  exact Repl.lm_agree hinv n (s.nodes l).term l (s.nodes l).log (hinv.leader_glog l hl) j hj1 hj2 hj3 hj4

/-- Non-vacuity: in the example run (Proofs/ReplExample.lean) node 3 has an empty log while
    the leader has committed two entries; the installation hands it exactly those. -/
example : ∃ s2, Repl.ReachableFrom Repl.cfg3 Repl.s7 s2 ∧ (s2.nodes 3).log = [⟨1, 0⟩, ⟨1, 42⟩] ∧ (s2.nodes 3).commit = 2 := by
  obtain ⟨s2, hf, hlog, _, hcom, _⟩ := C11_install_preserves_safety Repl.cfg3_nodup Repl.s7_reachable 1 3 2 0
    (by decide) (by decide) (by decide) (by decide)
  refine ⟨s2, hf, ?_, ?_⟩
  · rw [hlog]; decide
  · rw [hcom]; decide

end Raft
