/-
  Properties/C12.lean — the file-backed log recovers from a crash at any point.

  Model: log.bin is a byte string; the log's invariant is `file = frames entries`
  (complete records, placeholder first) with every stored offset equal to the record's
  position. A crash inside an append leaves `frames entries ++ p` for an arbitrary byte
  prefix `p` of the records being appended (the code writes them sequentially at the end
  of the file; E2 checks that against the syscalls the real code performs). Truncate is
  one `ftruncate`, compact/discard replace the file by rename: a crash exposes the old or
  the new file, both of the invariant's form. Statements are about the real record codec
  (`encodeLogBody`/`decodeLogBody`, tied byte-exactly to protobuf-go by E1).
-/
import RaftVerif.Proofs.LogFile
import RaftVerif.Properties.C19
namespace Raft.LogFile
open Raft.Bytes Raft.Codec

/-- Entries the code can store: 64-bit fields, a body that fits the int32 length prefix. -/
def EntryOK (e : SEntry) : Prop :=
  (U64 e.index ∧ U64 e.term ∧ U64 e.offset ∧ U64 e.data.length ∧ U64 e.kind) ∧ (encodeLogBody e).length < 2 ^ 32

def logCodec : BodyCodec SEntry where
  enc := encodeLogBody
  dec := decodeLogBody
  ok := EntryOK
  dec_enc := fun e h => C19_log_record_roundtrip e h.1.1 h.1.2.1 h.1.2.2.1 h.1.2.2.2.1 h.1.2.2.2.2
  small := fun _ h => h.2

abbrev fileOf (es : List SEntry) : Bytes := frames logCodec es

/-- **C12, crash inside an append.** Whatever byte prefix of the in-flight append reached
    the disk, reopening succeeds and yields every entry of the operations that had
    returned (`old`) followed by a prefix of the in-flight entries, intact; and the
    truncation point `Replay` computes cuts the file back to exactly those records. -/
theorem C12_recover_torn_append (old es : List SEntry) (hold : ∀ e ∈ old, EntryOK e) (hes : ∀ e ∈ es, EntryOK e)
    (p : Bytes) (hp : p <+: fileOf es) :
    ∃ j, j ≤ es.length ∧
      replay decodeLogBody (fileOf old ++ p) = .ok (old ++ es.take j) (fileOf (old ++ es.take j)).length ∧
      repaired (fileOf old ++ p) (fileOf (old ++ es.take j)).length = fileOf (old ++ es.take j) :=
  replay_torn_append logCodec old es hold hes p hp

/-- A file of complete records is read back exactly (clean reopen, and reopen after a
    crash that exposed the old or the new file of truncate/compact/discard). -/
theorem C12_recover_complete (es : List SEntry) (h : ∀ e ∈ es, EntryOK e) :
    replay decodeLogBody (fileOf es) = .ok es (fileOf es).length := by
  have := replay_torn_append logCodec es [] h (by simp) [] (by simp)
  obtain ⟨j, _, h1, _⟩ := this
  simp only [List.append_nil, List.take_nil] at h1
  exact h1

/-- **C12, keeps working.** After recovery the file is again a sequence of complete
    records of the recovered entries, so both theorems above apply to every further
    operation and crash: the guarantee is preserved over any number of reopen cycles. -/
theorem C12_continues (old es : List SEntry) (hold : ∀ e ∈ old, EntryOK e) (hes : ∀ e ∈ es, EntryOK e)
    (p : Bytes) (hp : p <+: fileOf es) :
    ∃ rec good, replay decodeLogBody (fileOf old ++ p) = .ok rec good ∧
      repaired (fileOf old ++ p) good = fileOf rec ∧ (∀ e ∈ rec, EntryOK e) ∧
      replay decodeLogBody (repaired (fileOf old ++ p) good) = .ok rec (fileOf rec).length := by
  obtain ⟨j, _, h1, h2⟩ := C12_recover_torn_append old es hold hes p hp
  have hall : ∀ e ∈ old ++ es.take j, EntryOK e := by
    intro e he
    rcases List.mem_append.mp he with h | h
    · exact hold e h
    · exact hes e (List.mem_of_mem_take h)
  exact ⟨_, _, h1, h2, hall, by rw [h2]; exact C12_recover_complete _ hall⟩

/-- Stored offsets are record positions. -/
def OffsetsOK (es : List SEntry) : Prop :=
  ∀ k (h : k < es.length), (es[k]'h).offset = (fileOf (es.take k)).length

/-- `Truncate` cuts the file at the stored offset of the first removed entry: with
    correct offsets that leaves exactly the records of the kept entries. -/
theorem C12_truncate_exact (es : List SEntry) (ho : OffsetsOK es) (k : Nat) (hk : k < es.length) :
    (fileOf es).take (es[k]'hk).offset = fileOf (es.take k) := by
  rw [ho k hk]
  conv => lhs; rw [← List.take_append_drop k es]
  rw [show fileOf (es.take k ++ es.drop k) = fileOf (es.take k) ++ fileOf (es.drop k) from frames_append _ _ _]
  simp

/-- `AppendEntries` stores the current end of file as the entry's offset: offsets stay correct. -/
theorem C12_append_offsets (es : List SEntry) (ho : OffsetsOK es) (e : SEntry) :
    OffsetsOK (es ++ [{ e with offset := (fileOf es).length }]) := by
  intro k hk
  by_cases hlt : k < es.length
  · rw [List.getElem_append_left hlt, List.take_append_of_le_length (by omega)]
    exact ho k hlt
  · have hkeq : k = es.length := by simp at hk; omega
    subst hkeq
    simp

/-- What the loop wrote is exactly the records of the entries it keeps in memory. -/
theorem writeSeq_file (file : Bytes) (es : List SEntry) :
    (writeSeq file es).1 = file ++ fileOf (writeSeq file es).2 := by
  induction es generalizing file with
  | nil => simp [writeSeq]
  | cons e es ih =>
    simp only [writeSeq]
    rw [ih]
    simp [fileOf, frames_cons, logCodec]

/-- The loop changes nothing but the offsets. -/
theorem writeSeq_same (file : Bytes) (es : List SEntry) :
    (writeSeq file es).2.map (fun e => { e with offset := 0 }) = es.map (fun e => { e with offset := 0 }) := by
  induction es generalizing file with
  | nil => simp [writeSeq]
  | cons e es ih => simp only [writeSeq, List.map_cons]; rw [ih]

theorem writeSeq_length (file : Bytes) (es : List SEntry) : (writeSeq file es).2.length = es.length := by
  induction es generalizing file with
  | nil => simp [writeSeq]
  | cons e es ih => simp only [writeSeq, List.length_cons]; rw [ih]

/-- **C12, batch append.** Appending any batch to a file of complete records with correct
    offsets leaves a file of complete records with correct offsets — although the offset
    is itself part of the record and so changes the record's length. -/
theorem C12_append_batch (old es : List SEntry) (ho : OffsetsOK old) :
    (writeSeq (fileOf old) es).1 = fileOf (old ++ (writeSeq (fileOf old) es).2) ∧
      OffsetsOK (old ++ (writeSeq (fileOf old) es).2) := by
  induction es generalizing old with
  | nil => simpa [writeSeq] using ho
  | cons e es ih =>
    have hstep := C12_append_offsets old ho e
    have hfile : fileOf old ++ frame (encodeLogBody { e with offset := (fileOf old).length }) =
        fileOf (old ++ [{ e with offset := (fileOf old).length }]) := by
      rw [show fileOf (old ++ [{ e with offset := (fileOf old).length }]) = fileOf old ++ fileOf [{ e with offset := (fileOf old).length }]
        from frames_append _ _ _]
      simp [fileOf, frames_cons, logCodec]
    have := ih (old ++ [{ e with offset := (fileOf old).length }]) hstep
    simp only [writeSeq]
    rw [hfile]
    simpa [List.append_assoc] using this

/-- **C12, compaction.** `Compact(index)` rewrites the kept suffix into a fresh file with
    the same loop, starting from the empty file: the new file consists of complete records
    of exactly the kept entries (only offsets differ), and every stored offset is again the
    record's position — so a later `Truncate` on the compacted log cuts at a record boundary
    (`C12_truncate_exact`), and a crash after the rename reopens to exactly these entries
    (`C12_recover_complete`). -/
theorem C12_compact_rewrites_exactly (es : List SEntry) (k : Nat) :
    let r := writeSeq [] (es.drop k)
    r.1 = fileOf r.2 ∧ OffsetsOK r.2 ∧ r.2.length = es.length - k ∧
      r.2.map (fun e => { e with offset := 0 }) = (es.drop k).map (fun e => { e with offset := 0 }) := by
  have h := C12_append_batch [] (es.drop k) (by intro k hk; simp at hk)
  simp only [fileOf, frames_nil, List.nil_append] at h
  refine ⟨h.1, h.2, ?_, writeSeq_same _ _⟩
  rw [writeSeq_length]; simp

/-- Truncating a compacted log at any of its entries leaves complete records of the
    entries in front of it. -/
theorem C12_truncate_after_compact (es : List SEntry) (k j : Nat)
    (hj : j < (writeSeq [] (es.drop k)).2.length) :
    (writeSeq [] (es.drop k)).1.take ((writeSeq [] (es.drop k)).2[j]'hj).offset =
      fileOf ((writeSeq [] (es.drop k)).2.take j) := by
  have h := C12_compact_rewrites_exactly es k
  simp only at h
  rw [h.1]
  exact C12_truncate_exact _ h.2.1 j hj

/-- **C12, crash during compaction.** `Compact` writes the temporary file and renames it over
    `log.bin`; a crash exposes either the old file or the new one (E2 checks that against the
    syscalls). Reopening reads, in the first case, all entries; in the second, exactly the
    entries the rewrite kept (whose fields other than the offset are those of `es.drop k`,
    `C12_compact_rewrites_exactly`). The bound on the rewritten entries is stated on the
    output because an offset is part of its record; it holds whenever the file is below 2^32 bytes. -/
theorem C12_crash_during_compact_old_or_new (es : List SEntry) (k : Nat) (hes : ∀ e ∈ es, EntryOK e)
    (hnew : ∀ e ∈ (writeSeq [] (es.drop k)).2, EntryOK e) (image : Bytes)
    (himg : image = fileOf es ∨ image = (writeSeq [] (es.drop k)).1) :
    replay decodeLogBody image = .ok es (fileOf es).length ∨
      replay decodeLogBody image = .ok (writeSeq [] (es.drop k)).2 (fileOf (writeSeq [] (es.drop k)).2).length := by
  rcases himg with h | h
  · left; rw [h]; exact C12_recover_complete es hes
  · right
    have hc := C12_compact_rewrites_exactly es k
    simp only at hc
    rw [h, hc.1]
    exact C12_recover_complete _ hnew

/-- `DiscardEntries(index, term)` replaces the file by one placeholder record at offset 0. -/
theorem C12_discard_exact (index term : Nat) :
    OffsetsOK [{ index := index, term := term : SEntry }] := by
  intro k hk
  have : k = 0 := by simp at hk; omega
  subst this; simp [fileOf]

/-! Non-vacuity: the placeholder plus one entry; the append of a second entry is cut
    after the 4-byte header and 3 body bytes; recovery returns the first two records. -/
def exE1 : SEntry := { index := 1, term := 1, offset := 4, data := [104, 105], kind := 1 }
def exE2 : SEntry := { index := 2, term := 1, offset := 20, data := [1, 2, 3, 4, 5], kind := 1 }
example : EntryOK exE1 ∧ EntryOK exE2 ∧ (fileOf [exE2]).take 7 <+: fileOf [exE2] :=
  ⟨by unfold EntryOK U64; decide, by unfold EntryOK U64; decide, List.take_prefix _ _⟩
example : replay decodeLogBody (fileOf [{ index := 0, term := 0 }, exE1] ++ (fileOf [exE2]).take 7) =
    .ok [{ index := 0, term := 0 }, exE1] 20 := by decide
/-- Compaction of [placeholder, e1, e2] at position 1: e1 moves to offset 0, e2 to 14. -/
example : (writeSeq [] ([{ index := 0, term := 0 }, exE1, exE2].drop 1)).2.map (·.offset) = [0, 14] := by decide
/-- the output hypothesis of `C12_crash_during_compact_old_or_new` is met by that example -/
example : ∀ e ∈ (writeSeq [] ([{ index := 0, term := 0 }, exE1, exE2].drop 1)).2, EntryOK e := by
  unfold EntryOK U64; decide

end Raft.LogFile
