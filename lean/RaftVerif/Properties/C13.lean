/-
  Properties/C13.lean — term/vote storage and snapshot storage are atomic.

  Term/vote: `SetState` is the program  create tmp; write tmp header; write tmp body;
  rename tmp state.bin  (E2 checks this against the syscalls of the real code). For every
  crash point — after any call, or at any byte inside either write — state.bin holds
  either exactly what it held before or exactly the complete new record, and the new
  record decodes to the value written (C19). By induction over writes, a reopen returns
  the last completed value or the in-flight one, never anything else, never an error.

  Snapshots: a writer works in a `tmp-snapshot*` directory that only `Close` renames to a
  `snapshot-<n>` name; readers list `snapshot-<n>` names only and every constructor first
  removes `tmp*` entries. The directory-level model below states that what a reopen sees
  is exactly the closed snapshots, each complete.
-/
import RaftVerif.Model.FS
import RaftVerif.Properties.C19
import RaftVerif.Proofs.DecOrder
namespace Raft.FS
open Raft.Bytes Raft.Codec

/-- The system calls of `SetState(term, vote)` with temporary file `tmp`. -/
def setStateProg (tmp : String) (s : SState) : List Sys :=
  [.create tmp, .append tmp (be32 (encodeStateBody s).length), .append tmp (encodeStateBody s), .rename tmp "state.bin"]

theorem setState_runs (fs : FS) (tmp : String) (s : SState) (hfresh : fs tmp = none) :
    run fs (setStateProg tmp s) "state.bin" = some (frame (encodeStateBody s)) := by
  simp [run, setStateProg, Sys.apply, hfresh, frame]

/-- **C13, atomic term/vote write.** At every crash point of `SetState`, state.bin is
    the old file or the complete new record. -/
theorem C13_state_atomic (fs : FS) (tmp : String) (s : SState) (hne : tmp ≠ "state.bin") (hfresh : fs tmp = none)
    (k cut : Nat) :
    crashImage fs (setStateProg tmp s) k cut "state.bin" = fs "state.bin" ∨
    crashImage fs (setStateProg tmp s) k cut "state.bin" = some (frame (encodeStateBody s)) := by
  have hne' : ¬ ("state.bin" = tmp) := fun h => hne h.symm
  match k with
  | 0 => left; simp [crashImage, setStateProg, run]
  | 1 => left; simp [crashImage, setStateProg, run, Sys.apply, hne']
  | 2 => left; simp [crashImage, setStateProg, run, Sys.apply, hne']
  | 3 => left; simp [crashImage, setStateProg, run, Sys.apply, hne']
  | k + 4 =>
    right
    have : crashImage fs (setStateProg tmp s) (k + 4) cut = run fs (setStateProg tmp s) := by
      simp [crashImage, setStateProg, run]
    rw [this]; exact setState_runs fs tmp s hfresh

/-- What `State()` returns for a state.bin content (absent file: term 0, no vote). -/
def readState : Option Bytes → Option SState
  | none => some { term := 0, votedFor := [] }
  | some bs =>
    match readBe32 bs with
    | none => none
    | some (len, rest) => if rest.length < len then none else decodeStateBody (rest.take len)

theorem readState_frame (s : SState) (h1 : U64 s.term) (h2 : U64 s.votedFor.length)
    (h3 : (encodeStateBody s).length < 2 ^ 32) : readState (some (frame (encodeStateBody s))) = some s := by
  have := C19_frame_roundtrip (encodeStateBody s) [] h3
  simp only [List.append_nil] at this
  simp only [readState, this]
  simp [C19_state_record_roundtrip s h1 h2]

def StateOK (s : SState) : Prop := U64 s.term ∧ U64 s.votedFor.length ∧ (encodeStateBody s).length < 2 ^ 32

/-- **C13, reopen after a crash.** If state.bin currently reads as `old`, then after a
    crash anywhere inside `SetState new` a reopen reads `old` or `new` — and never fails. -/
theorem C13_state_reopen (fs : FS) (tmp : String) (old new : SState) (hne : tmp ≠ "state.bin") (hfresh : fs tmp = none)
    (hold : readState (fs "state.bin") = some old) (hnew : StateOK new) (k cut : Nat) :
    readState (crashImage fs (setStateProg tmp new) k cut "state.bin") = some old ∨
    readState (crashImage fs (setStateProg tmp new) k cut "state.bin") = some new := by
  rcases C13_state_atomic fs tmp new hne hfresh k cut with h | h
  · left; rw [h]; exact hold
  · right; rw [h]; exact readState_frame new hnew.1 hnew.2.1 hnew.2.2

/-! ### Snapshot directory model -/

structure Snap where
  name : Nat            -- the <n> of `snapshot-<n>`
  index : Nat
  term : Nat
  config : Bytes
  data : Bytes
deriving DecidableEq, Repr

structure SnapDir where
  visible : List Snap                 -- `snapshot-<n>` directories
  temps : List (Nat × Snap)           -- open writers: `tmp-snapshot*` directories (id, content so far)
deriving Repr

inductive SnapOp
  | new (w name index term : Nat) (config : Bytes)
  | write (w : Nat) (bs : Bytes)
  | close (w : Nat)
  | discard (w : Nat)

def SnapDir.step (d : SnapDir) : SnapOp → SnapDir
  | .new w name index term config => { d with temps := (w, ⟨name, index, term, config, []⟩) :: d.temps }
  | .write w bs => { d with temps := d.temps.map fun t => if t.1 = w then (t.1, { t.2 with data := t.2.data ++ bs }) else t }
  | .close w =>
    match d.temps.find? (·.1 = w) with
    | some t => { visible := d.visible ++ [t.2], temps := d.temps.filter (·.1 ≠ w) }
    | none => d
  | .discard w => { d with temps := d.temps.filter (·.1 ≠ w) }

/-- Reopening removes every `tmp*` directory; readers see the visible ones only. -/
def SnapDir.reopen (d : SnapDir) : SnapDir := { d with temps := [] }

/-- **C13, no partial snapshot is ever visible.** Whatever happens to open writers
    (further writes cut anywhere, discard, a crash), the visible snapshots are exactly those
    closed so far, unchanged: only `close` adds one, and it adds the writer's complete content. -/
theorem C13_snap_visible_only_closed (d : SnapDir) (op : SnapOp) :
    (∀ w, op ≠ .close w) → (d.step op).visible = d.visible := by
  intro h
  cases op with
  | new => rfl
  | write => rfl
  | close w => exact absurd rfl (h w)
  | discard => rfl

theorem C13_snap_close_complete (d : SnapDir) (w : Nat) (t : Nat × Snap) (h : d.temps.find? (·.1 = w) = some t) :
    (d.step (.close w)).visible = d.visible ++ [t.2] := by
  simp [SnapDir.step, h]

theorem C13_snap_reopen (d : SnapDir) : d.reopen.visible = d.visible ∧ d.reopen.temps = [] := ⟨rfl, rfl⟩

/-! Non-vacuity -/
example : StateOK { term := 7, votedFor := [49] } := by unfold StateOK U64; decide
example : readState (some (frame (encodeStateBody { term := 7, votedFor := [49] }))) = some { term := 7, votedFor := [49] } := by decide

/-! ## "The most recent" snapshot: directory names sort by creation time

  A published snapshot lives in `snapshot-<UnixNano>`; `SnapshotFile()` opens the last name of
  the directory listing, which is in byte-wise order of the names (Proofs/DecOrder.lean). For
  time stamps of one width — nineteen digits: 2001-09-09 to 2286-11-20 — that order is the
  order of creation, and two snapshots have the same name only if they were created in the
  same nanosecond. Names of different widths do NOT sort numerically (`snapshot-10` comes
  before `snapshot-9`): the names must stay time stamps. -/

/-- the name of the directory of a snapshot published at `t` (UnixNano) -/
def snapName (t : Nat) : List Nat := Raft.Meta.str "snapshot-" ++ Raft.Meta.encDec t

theorem C13_snapshot_names_sort_by_time (t1 t2 : Nat) (h1 : 10 ^ 18 ≤ t1) (h1' : t1 < 10 ^ 19)
    (h2 : 10 ^ 18 ≤ t2) (h2' : t2 < 10 ^ 19) :
    (Raft.Meta.lexLt (snapName t1) (snapName t2) = true ↔ t1 < t2) ∧ (snapName t1 = snapName t2 ↔ t1 = t2) := by
  obtain ⟨hl, he⟩ := Raft.Meta.encDec_order 18 t1 t2 (by omega) h1 h1' h2 h2'
  unfold snapName
  rw [Raft.Meta.lexLt_prefix]
  exact ⟨hl, by rw [List.append_cancel_left_eq]; exact he⟩

/-- the width matters: labelled by a log index, the snapshot of index 10 would sort before that of 9 -/
theorem C13_names_of_different_width_do_not_sort :
    Raft.Meta.lexLt (snapName 10) (snapName 9) = true := by decide

example : (10 : Nat) ^ 18 ≤ 1790000000000000000 ∧ 1790000000000000000 < 10 ^ 19 := by decide

end Raft.FS
