/-
  Properties/C14.lean — restart after a crash between two storage writes (node level).

  `NodeWF` is what the handlers rely on; `restoreNode` is `restore()` on what the storages
  return (C12/C13 say what that is at every crash point). Proved: a restored node is
  well-formed whenever the recovered log is well-formed and its base does not exceed the
  newest visible snapshot's label (the snapshot is made visible *before* the log is
  trimmed, in both `takeSnapshot` and `InstallSnapshot` — E4 checks that order on the real
  code by crashing between the two writes); on well-formed nodes the vote handler, the
  replication handler (with contiguous requests), the commit loop and the apply loop never
  take a `logger.Fatal` path. Safety after the restart is C01/C02/C08 (crash steps are part
  of their models); catching up is C15. Tie: E4 crash walks with crash points armed at
  storage-operation boundaries inside critical sections, E2 images.
-/
import RaftVerif.Properties.C06
import RaftVerif.Properties.C08
import RaftVerif.Proofs.LeaderSpecs
import RaftVerif.Model.Lifecycle
import RaftVerif.Model.Snapshot
import RaftVerif.Properties.C15
set_option linter.unusedSimpArgs false
set_option linter.unusedVariables false
namespace Raft
open Node Log

structure NodeWF (n : Node) : Prop where
  log_wf : n.log.WF
  base_le : n.log.base ≤ n.snapIndex
  snap_le_applied : n.snapIndex ≤ n.lastApplied
  applied_le_commit : n.lastApplied ≤ n.commitIndex

/-- `restore()`: term and vote from state storage, the log as replayed, boundary / commit /
    applied index from the newest visible snapshot (zero without one). -/
def restoreNode (id term vote : Nat) (log : Log) (snap : Option SnapFile) (cfg : Config) : Node :=
  let si := match snap with | some f => f.index | none => 0
  let st := match snap with | some f => f.term | none => 0
  { id := id, role := .shutdown, term := term, votedFor := vote, log := log, snapIndex := si, snapTerm := st,
    commitIndex := si, lastApplied := si, config := cfg }

/-- **A restored node is well-formed** (crash anywhere: only the two listed facts about the
    directory image are needed). -/
theorem C14_restore_wf (id term vote : Nat) (log : Log) (snap : Option SnapFile) (cfg : Config) (hw : log.WF)
    (hb : log.base ≤ (match snap with | some f => f.index | none => 0)) :
    NodeWF (restoreNode id term vote log snap cfg) :=
  ⟨hw, hb, Nat.le_refl _, Nat.le_refl _⟩

/-- **The vote handler never aborts**, in any state, for any request. -/
theorem C14_vote_handler_never_fatal {n n' : Node} {now : Nat} {q : RVReq} {r : RVResp} {eff : List Effect}
    (h : requestVote n now q = some (n', r, eff)) : Effect.fatal ∉ eff := by
  have he : Effect.fatal ∉ (rvEnter n now q).2 := by
    unfold rvEnter; split
    · exact becomeFollower_no_fatal _ _ _ _
    · simp
  unfold requestVote at h
  split at h; · simp at h
  split at h; · injection h with h; injection h with _ h2; injection h2 with _ h3; subst h3; simp
  split at h; · injection h with h; injection h with _ h2; injection h2 with _ h3; subst h3; simp
  simp only at h
  split at h; · injection h with h; injection h with _ h2; injection h2 with _ h3; subst h3; exact he
  split at h; · injection h with h; injection h with _ h2; injection h2 with _ h3; subst h3; exact he
  split at h
  · injection h with h; injection h with _ h2; injection h2 with _ h3; subst h3; exact he
  · injection h with h; injection h with _ h2; injection h2 with _ h3; subst h3
    simp only [List.mem_append, List.mem_singleton, reduceCtorEq, or_false]; exact he

theorem conflictScan_some (l : Log) (hw : l.WF) (s t : Nat) (hs : l.base ≤ s) :
    ∀ i, i ≤ l.lastIndex → (conflictScan l s t i).isSome := by
  intro i
  induction i with
  | zero => intro _; simp [conflictScan]
  | succ i ih =>
    intro hi
    unfold conflictScan
    split
    · rename_i hgt
      have hc : l.contains (i + 1) = true := (wf_contains_iff hw).mpr ⟨by omega, hi⟩
      obtain ⟨e, he⟩ := Option.isSome_iff_exists.mp (get?_isSome_of_contains hc)
      rw [he]; simp only
      split
      · simp
      · exact ih (by omega)
    · simp

/-- **The previous-entry check never aborts on a well-formed node.** -/
theorem C14_prev_check_never_fatal (n : Node) (q : AEReq) (hw : n.log.WF) (hb : n.log.base ≤ n.snapIndex) :
    aePrevCheck n q ≠ .fatal := by
  unfold aePrevCheck
  split; · simp
  split; · simp
  rename_i h1 h2
  split; · simp
  split
  · rename_i h3 h4
    unfold Log.nextIndex at h2
    have hc : n.log.contains q.prevIndex = true := (wf_contains_iff hw).mpr ⟨by omega, by omega⟩
    obtain ⟨pe, hpe⟩ := Option.isSome_iff_exists.mp (get?_isSome_of_contains hc)
    rw [hpe]; simp only
    split
    · have := conflictScan_some n.log hw n.snapIndex pe.term hb (q.prevIndex - 1) (by omega)
      obtain ⟨i, hi⟩ := Option.isSome_iff_exists.mp this
      rw [hi]; simp
    · simp
  · simp

/-- **The replication handler never aborts** on a well-formed node with a contiguous request. -/
theorem C14_append_handler_never_fatal {n n' : Node} {now : Nat} {q : AEReq} {r : AEResp} {eff : List Effect}
    (h : appendEntries n now q = some (n', r, eff)) (hp : AEPre n q) : Effect.fatal ∉ eff := by
  by_cases hs : r.success = true
  · exact (C06_accept h hs hp).1
  · unfold appendEntries at h
    split at h; · simp at h
    split at h
    · injection h with h; injection h with _ h2; injection h2 with _ h3; subst h3; simp
    · simp only at h
      have hne := C14_prev_check_never_fatal (aeEnter n now q).1 q (by rw [aeEnter_log]; exact hp.wf)
        (by rw [aeEnter_log, aeEnter_snapIndex]; exact hp.base_le)
      split at h
      · injection h with h; injection h with _ h2; injection h2 with _ h3; subst h3; exact aeEnter_no_fatal n now q
      · rename_i hf; exact absurd hf hne
      · injection h with h; injection h with _ h2; injection h2 with h2 _; subst h2; simp at hs

/-- **The apply loop never aborts** when the committed prefix of a well-formed log holds
    entries of the three known kinds (configuration entries carrying their configuration). -/
theorem C14_apply_never_fatal (n : Node) (now : Nat) (hw : NodeWF n) (hc : n.commitIndex ≤ n.log.lastIndex)
    (hk : ∀ i e, n.log.get? i = some e → e.kind = kNoop ∨ e.kind = kOp ∨ (e.kind = kConfig ∧ e.cfg.isSome)) :
    Effect.fatal ∉ (n.applyStep now).2.1 := by
  unfold applyStep
  split
  · rename_i hlt
    have hcont : n.log.contains (n.lastApplied + 1) = true :=
      (wf_contains_iff hw.log_wf).mpr ⟨by have := hw.base_le; have := hw.snap_le_applied; omega, by omega⟩
    obtain ⟨e, he⟩ := Option.isSome_iff_exists.mp (get?_isSome_of_contains hcont)
    rw [he]; simp only
    have hnf : ∀ (m : Node) (c : Config), Effect.fatal ∉ (m.applyConfiguration now c).2 := by
      intro m c; unfold applyConfiguration
      cases m.committed with
      | none => exact nextConfiguration_no_fatal _ _ _
      | some cc => simp only; split
                   · simp
                   · exact nextConfiguration_no_fatal _ _ _
    rcases hk _ e he with h1 | h1 | ⟨h1, h2⟩
    · simp [h1]
    · simp [h1, kOp, kNoop, kConfig]
    · obtain ⟨c, hcfg⟩ := Option.isSome_iff_exists.mp h2
      simp [h1, kNoop, kConfig, hcfg, hnf]
  · simp

/-! ### `restore()` / `start` as the code runs them (Model/Lifecycle.lean, tied by E3-lifecycle) -/

/-- **In-place restart without a snapshot keeps the applied and commit index**: the state
    machine object survives Stop/Start, so the apply loop must go on after the last index it
    handed over (C01: no instance sees an index twice). -/
theorem C14_restore_keeps_applied (n : Node) (d : Node.Disk) (h : d.snap = none) :
    (n.restore d).lastApplied = n.lastApplied ∧ (n.restore d).commitIndex = n.commitIndex ∧
    (n.restore d).snapIndex = n.snapIndex := by
  unfold Node.restore; rw [h]; simp

/-- **With a snapshot the node restarts exactly at its label** (the state machine is rebuilt
    from the snapshot, a new instance). -/
theorem C14_restore_adopts_snapshot (n : Node) (d : Node.Disk) (i t : Nat) (c : Config) (h : d.snap = some (i, t, c)) :
    (n.restore d).lastApplied = i ∧ (n.restore d).commitIndex = i ∧ (n.restore d).snapIndex = i ∧
    (n.restore d).snapTerm = t := by
  unfold Node.restore; rw [h]; simp

/-- **Term, vote and log after a restart are exactly what the storages return** — except that a log
    which stops short of the newest snapshot's last entry, or contradicts it, is discarded up to the
    snapshot (the interrupted installation is finished: fix S21). -/
theorem C14_restore_reads_disk (n : Node) (d : Node.Disk) :
    (n.restore d).term = d.term ∧ (n.restore d).votedFor = d.vote ∧
    (n.restore d).log = (match d.snap with
      | some (i, t, _) => if Node.logMissesBoundary d.log i t then d.log.discard i t else d.log
      | none => d.log) := by
  unfold Node.restore; cases d.snap with
  | none => simp
  | some x => obtain ⟨i, t, c⟩ := x; simp

/-- **After a restart the log reaches the boundary** (fix S21): with a snapshot on disk the restored log
    either starts at the snapshot (discarded) or its last index is at least the snapshot's label — the
    state in which "log too short" and "snapshot has nothing new" used to alternate for ever is gone. -/
theorem C14_restore_log_reaches_boundary (n : Node) (d : Node.Disk) (i t : Nat) (c : Config) (h : d.snap = some (i, t, c)) :
    i ≤ (n.restore d).log.lastIndex := by
  have := (C14_restore_reads_disk n d).2.2
  rw [h] at this
  simp only at this
  rw [this]
  by_cases hm : Node.logMissesBoundary d.log i t = true
  · rw [if_pos hm]; simp [Log.discard, Log.lastIndex]
  · rw [if_neg hm]
    unfold Node.logMissesBoundary at hm
    simp only [Bool.or_eq_true, decide_eq_true_eq, not_or] at hm
    omega

theorem discard_wf (l : Log) (i t : Nat) : (l.discard i t).WF := by
  simp [Log.discard, Log.WF, Log.Contig]

/-- **A started node is a well-formed follower** when the directory is (the recovered log is
    well-formed, its base does not exceed the snapshot label) and the object was (in-place
    restart) — or there is a snapshot. -/
theorem C14_start_wf (n : Node) (now : Nat) (rf st : Bool) (d : Node.Disk) (hs : n.role = .shutdown)
    (hw : d.log.WF) (hn : NodeWF n)
    (hb : d.log.base ≤ (match d.snap with | some (i, _, _) => i | none => n.snapIndex))
    (hr : (rf || st) = true) :
    NodeWF (n.start now rf st d) ∧ (n.start now rf st d).role = .follower := by
  unfold Node.start
  rw [if_neg (by rw [hs]; simp)]
  simp only [hr, if_true]
  refine ⟨?_, trivial⟩
  have hrd := C14_restore_reads_disk n d
  cases hsn : d.snap with
  | none =>
    have hk := C14_restore_keeps_applied n d hsn
    rw [hsn] at hb hrd
    simp only at hrd
    exact ⟨by simp only; rw [hrd.2.2]; exact hw, by simp only; rw [hrd.2.2, hk.2.2]; exact hb,
           by simp only; rw [hk.1, hk.2.2]; exact hn.snap_le_applied, by simp only; rw [hk.1, hk.2.1]; exact hn.applied_le_commit⟩
  | some x =>
    obtain ⟨i, t, c⟩ := x
    have hk := C14_restore_adopts_snapshot n d i t c hsn
    rw [hsn] at hb hrd
    simp only at hb hrd
    refine ⟨?_, ?_, by simp only; rw [hk.1, hk.2.2.1]; exact Nat.le_refl _, by simp only; rw [hk.1, hk.2.1]; exact Nat.le_refl _⟩
    · simp only; rw [hrd.2.2]
      split
      · exact discard_wf _ _ _
      · exact hw
    · simp only; rw [hrd.2.2, hk.2.2.1]
      split
      · simp [Log.discard]
      · exact hb

/-- **A local snapshot that was overtaken by an installed one is never published** (fix S10): if the
    node's boundary has reached the label while `fsm.Snapshot` ran, `takeSnapshot` changes nothing and
    discards the file — so the newest visible snapshot is never older than what the log was discarded
    for, and `restore()` finds the entries right after the snapshot it loads. -/
theorem C14_overtaken_snapshot_not_published (n : Node) (l : Node.SnapLabel) (content : List Nat) (h : l.index ≤ n.snapIndex) :
    n.snapshotEnd l content = (n, [.snapDiscard]) := by
  unfold Node.snapshotEnd
  rw [if_pos h]

/-- … and a published local snapshot moves the boundary to exactly its label. -/
theorem C14_published_snapshot_is_boundary (n : Node) (l : Node.SnapLabel) (content : List Nat) (h : ¬ l.index ≤ n.snapIndex)
    (hnf : Effect.fatal ∉ (n.snapshotEnd l content).2) :
    (n.snapshotEnd l content).1.snapIndex = l.index ∧
    (n.snapshotEnd l content).1.snaps = n.snaps ++ [{ index := l.index, term := l.term, data := content }] := by
  unfold Node.snapshotEnd at hnf ⊢
  rw [if_neg h] at hnf ⊢
  simp only at hnf ⊢
  split
  · simp [Node.resetSnapshots]
  · rename_i hc
    rw [hc] at hnf
    simp at hnf

/-! ### Cluster level: a crash at any point, then restart and rejoin

    In the replication-layer model a crash is a step (log, term and vote persist — what C12/C13 give for
    every crash point between and inside the storage writes — role and commit index are lost), so the
    safety theorems already quantify over runs with crashes. Spelled out for C14: -/

/-- **Nothing applied anywhere is contradicted after a crash and restart**: for a crash of any node in
    any reachable state and everything that happens afterwards, the committed prefixes of any two
    nodes, one taken before the crash and one at any later time, are comparable. -/
theorem C14_safety_across_crash {cfg : Config} (hnd : cfg.voterIds.Nodup) {s s'' : Repl.AState} (hr : Repl.Reachable cfg s) (n : Nat)
    (hafter : Repl.ReachableFrom cfg { s with nodes := Repl.setNode s n { s.nodes n with role := .follower, commit := 0 } } s'')
    (a b : Nat) :
    (s.nodes a).log.take (s.nodes a).commit <+: (s''.nodes b).log.take (s''.nodes b).commit ∨
    (s''.nodes b).log.take (s''.nodes b).commit <+: (s.nodes a).log.take (s.nodes a).commit := by
  have hstep : Repl.Step cfg s { s with nodes := Repl.setNode s n { s.nodes n with role := .follower, commit := 0 } } := Repl.Step.crash s n
  have hfrom : Repl.ReachableFrom cfg s s'' := by
    have h1 : Repl.ReachableFrom cfg s _ := Repl.ReachableFrom.step Repl.ReachableFrom.base hstep
    exact Repl.ReachableFrom.trans h1 hafter
  exact Repl.state_machine_safety hnd hr hfrom a b

/-- **The restarted node can rejoin and catch up, and loses nothing it had applied**: after the crash of
    any node there is a continuation at the end of which every voter (the restarted one included, if it
    is one) holds the leader's log with the same commit index, and everything that was committed
    before the crash — in particular what the crashed node itself had applied — is a prefix of it. -/
theorem C14_restarted_node_can_catch_up {cfg : Config} (hnd : cfg.voterIds.Nodup) (hne : cfg.voterIds ≠ []) {s : Repl.AState}
    (hr : Repl.Reachable cfg s) (n : Nat) :
    ∃ s' l, Repl.ReachableFrom cfg { s with nodes := Repl.setNode s n { s.nodes n with role := .follower, commit := 0 } } s' ∧
      (s'.nodes l).role = .leader ∧
      (∀ v, cfg.isVoter v = true → (s'.nodes v).log = (s'.nodes l).log ∧ (s'.nodes v).commit = (s'.nodes l).log.length) ∧
      ∀ a, (s.nodes a).log.take (s.nodes a).commit <+: (s'.nodes l).log := by
  have hstep : Repl.Step cfg s { s with nodes := Repl.setNode s n { s.nodes n with role := .follower, commit := 0 } } := Repl.Step.crash s n
  have hr1 := Repl.Reachable.step hr hstep
  obtain ⟨s', l, hf, hl, hall, hkeep⟩ := C15_convergence_keeps_all_committed hnd hne hr1
  refine ⟨s', l, hf, hl, hall, ?_⟩
  intro a
  have hi := Repl.inv_reachable hnd hr
  have hc := (hi.commit_ok a).2
  have hc1 := Repl.committed_stable hnd hr (Repl.ReachableFrom.step Repl.ReachableFrom.base hstep) hc
  exact hkeep _ _ hc1

end Raft
