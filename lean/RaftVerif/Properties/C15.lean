/-
  Properties/C15.lean — liveness: the deterministic ingredients (PARTIAL by nature).

  Timer randomness ("some election timer fires alone") is outside the model. Proved, for
  every node state: every rejection of an AppendEntries request moves the leader's next
  index strictly toward agreement (the hint is at most the rejected previous index) or
  tells it the follower's compaction boundary; a sole voter (with or without non-voting
  members) wins its election in one step, in a new term; a member learned from an applied
  configuration gets a usable next index. The convergence conclusion over cluster runs is
  tied by E4: every walk ends with a fault-free period after which exactly one leader must
  exist, a fresh operation must complete and every running member must hold the leader's
  applied sequence.
-/
import RaftVerif.Proofs.AppendEntries
import RaftVerif.Proofs.ElectionLemmas
set_option linter.unusedSimpArgs false
set_option linter.unusedVariables false
namespace Raft
open Node Log

theorem conflictScan_le (l : Log) (s t : Nat) : ∀ (i r : Nat), conflictScan l s t i = some r → r ≤ i := by
  intro i
  induction i with
  | zero => intro r h; simp [conflictScan] at h; omega
  | succ i ih =>
    intro r h
    unfold conflictScan at h
    split at h
    · split at h
      · simp at h
      · split at h
        · injection h with h; omega
        · have := ih r h; omega
    · injection h with h; omega

/-- **Every rejection makes progress.** The hint of a rejected request is either at most
    the rejected previous index (the leader's next index, `prevIndex + 1`, strictly
    decreases) or it is the follower's compaction boundary plus one (the next request then
    starts exactly at the boundary). -/
theorem C15_hint_progress (n : Node) (q : AEReq) (h : Nat) (hr : aePrevCheck n q = .reject h) (hp : 0 < q.prevIndex) :
    h ≤ q.prevIndex ∨ (n.snapIndex > q.prevIndex ∧ h = n.snapIndex + 1) := by
  unfold aePrevCheck at hr
  split at hr
  · rename_i hs; injection hr with hr; right; exact ⟨hs, hr.symm⟩
  split at hr
  · rename_i _ hs; injection hr with hr; left; unfold Log.nextIndex at hs hr; omega
  split at hr
  · rename_i _ _ hs; injection hr with hr; left; omega
  split at hr
  · split at hr
    · simp at hr
    · split at hr
      · split at hr
        · simp at hr
        · rename_i i hi
          injection hr with hr
          have := conflictScan_le _ _ _ _ _ hi
          left; omega
      · simp at hr
  · simp at hr

/-- **A sole voter leads at once**, in a term of its own, whatever non-voting members the
    configuration has (after the `fix:` commits for S15 and S25). -/
theorem C15_sole_voter_wins (n : Node) (now : Nat) (hs : n.config.isSingle n.id = true) (hr : n.role = .follower)
    (hstale : n.contactFresh now = false) :
    (n.election now).1.role = .leader ∧ (n.election now).1.term = n.term + 1 ∧ (n.election now).1.votedFor = n.id := by
  have hv : n.config.isVoter n.id = true := by
    unfold Config.isSingle at hs; simp only [Bool.and_eq_true] at hs; exact hs.2
  have hidle : ¬ (n.role = .leader ∨ n.role = .shutdown ∨ n.config.isVoter n.id = false ∨ n.contactFresh now = true) := by
    simp [hr, hv, hstale]
  have heq : (n.election now).1 = ((({ n with role := .precandidate } : Node).becomeCandidate).1.becomeLeader now).1 := by
    unfold election
    rw [if_neg hidle]
    simp only [hr, true_or, if_true, reduceCtorEq, if_false, List.nil_append]
    unfold sendRVToPeers
    have hs' : ({ n with role := Role.precandidate } : Node).config.isSingle ({ n with role := Role.precandidate } : Node).id = true := hs
    simp only [hs', if_true, ne_eq, reduceCtorEq, not_false_eq_true]
  rw [heq]
  obtain ⟨b1, b2, b3, _⟩ := becomeLeader_fields (({ n with role := .precandidate } : Node).becomeCandidate).1 now
  exact ⟨b3, by rw [b1]; rfl, by rw [b2]; rfl⟩

/-- **A learned member can be replicated to** (after the `fix:` for S27): the replication
    state created for a member first seen in an applied configuration starts at index 1. -/
theorem C15_learned_member_next_index (n : Node) (now : Nat) (c : Config) (i : Nat)
    (hnew : n.config.isMember i = false) (hin : i ∈ c.memberIds) (hself : c.isMember n.id = true) :
    ∃ f ∈ (n.nextConfiguration now (some c)).1.followers, f.id = i ∧ f.next = 1 := by
  unfold nextConfiguration
  simp only [hself, if_true]
  refine ⟨{ id := i, next := 1 }, ?_, rfl, rfl⟩
  apply List.mem_append_right
  apply List.mem_map.mpr
  exact ⟨i, List.mem_filter.mpr ⟨hin, by simp [hnew]⟩, rfl⟩

end Raft
