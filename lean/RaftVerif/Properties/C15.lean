/-
  Properties/C15.lean — liveness: the deterministic ingredients (PARTIAL by nature).

  Timer randomness ("some election timer fires alone") is outside the model. Proved, for
  every node state: every rejection of an AppendEntries request moves the leader's next
  index strictly toward agreement (the hint is at most the rejected previous index) or
  tells it the follower's compaction boundary; a sole voter (with or without non-voting
  members) wins its election in one step, in a new term; a member learned from an applied
  configuration gets a usable next index. The convergence conclusion over cluster runs is
  tied by E4: every walk ends with a fault-free period after which exactly one leader must
  exist, a fresh operation must complete and every running member must hold the leader's
  applied sequence.
-/
import RaftVerif.Proofs.AppendEntries
import RaftVerif.Proofs.ElectionLemmas
import RaftVerif.Proofs.ReplProgress
import RaftVerif.Proofs.ReplExample
set_option linter.unusedSimpArgs false
set_option linter.unusedVariables false
namespace Raft
open Node Log

theorem conflictScan_le (l : Log) (s t : Nat) : ∀ (i r : Nat), conflictScan l s t i = some r → r ≤ i := by
  intro i
  induction i with
  | zero => intro r h; simp [conflictScan] at h; omega
  | succ i ih =>
    intro r h
    unfold conflictScan at h
    split at h
    · split at h
      · simp at h
      · split at h
        · injection h with h; omega
        · have := ih r h; omega
    · injection h with h; omega

/-- **Every rejection makes progress.** The hint of a rejected request is either at most
    the rejected previous index (the leader's next index, `prevIndex + 1`, strictly
    decreases) or it is the follower's compaction boundary plus one (the next request then
    starts exactly at the boundary). -/
theorem C15_hint_progress (n : Node) (q : AEReq) (h : Nat) (hr : aePrevCheck n q = .reject h) (hp : 0 < q.prevIndex) :
    h ≤ q.prevIndex ∨ (n.snapIndex > q.prevIndex ∧ h = n.snapIndex + 1) := by
  unfold aePrevCheck at hr
  split at hr
  · rename_i hs; injection hr with hr; right; exact ⟨hs, hr.symm⟩
  split at hr
  · rename_i _ hs; injection hr with hr; left; unfold Log.nextIndex at hs hr; omega
  split at hr
  · rename_i _ _ hs; injection hr with hr; left; omega
  split at hr
  · split at hr
    · simp at hr
    · split at hr
      · split at hr
        · simp at hr
        · rename_i i hi
          injection hr with hr
          have := conflictScan_le _ _ _ _ _ hi
          left; omega
      · simp at hr
  · simp at hr

/-- **A sole voter leads at once**, in a term of its own, whatever non-voting members the
    configuration has (after the `fix:` commits for S15 and S25). -/
theorem C15_sole_voter_wins (n : Node) (now : Nat) (hs : n.config.isSingle n.id = true) (hr : n.role = .follower)
    (hstale : n.contactFresh now = false) :
    (n.election now).1.role = .leader ∧ (n.election now).1.term = n.term + 1 ∧ (n.election now).1.votedFor = n.id := by
  have hv : n.config.isVoter n.id = true := by
    unfold Config.isSingle at hs; simp only [Bool.and_eq_true] at hs; exact hs.2
  have hidle : ¬ (n.role = .leader ∨ n.role = .shutdown ∨ n.config.isVoter n.id = false ∨ n.contactFresh now = true) := by
    simp [hr, hv, hstale]
  have heq : (n.election now).1 = ((({ n with role := .precandidate } : Node).becomeCandidate).1.becomeLeader now).1 := by
    unfold election
    rw [if_neg hidle]
    simp only [hr, true_or, if_true, reduceCtorEq, if_false, List.nil_append]
    unfold sendRVToPeers
    have hs' : ({ n with role := Role.precandidate } : Node).config.isSingle ({ n with role := Role.precandidate } : Node).id = true := hs
    simp only [hs', if_true, ne_eq, reduceCtorEq, not_false_eq_true]
  rw [heq]
  obtain ⟨b1, b2, b3, _⟩ := becomeLeader_fields (({ n with role := .precandidate } : Node).becomeCandidate).1 now
  exact ⟨b3, by rw [b1]; rfl, by rw [b2]; rfl⟩

/-- **A learned member can be replicated to** (after the `fix:` for S27): the replication
    state created for a member first seen in an applied configuration starts at index 1. -/
theorem C15_learned_member_next_index (n : Node) (now : Nat) (c : Config) (i : Nat)
    (hnew : n.config.isMember i = false) (hin : i ∈ c.memberIds) (hself : c.isMember n.id = true) :
    ∃ f ∈ (n.nextConfiguration now (some c)).1.followers, f.id = i ∧ f.next = 1 := by
  unfold nextConfiguration
  simp only [hself, if_true]
  refine ⟨{ id := i, next := 1 }, ?_, rfl, rfl⟩
  apply List.mem_append_right
  apply List.mem_map.mpr
  exact ⟨i, List.mem_filter.mpr ⟨hin, by simp [hnew]⟩, rfl⟩

/-! ### Cluster level (Proofs/ReplProgress.lean): no reachable state is a dead end

    Liveness proper needs the timers and a network that eventually delivers; that is checked by
    the fault-free periods of E4. What a theorem can say — and says here for EVERY reachable state
    of the replication-layer model, whatever crashes, partitions, lost / duplicated / reordered
    messages, competing candidates and half-done replications produced it — is that the
    continuation a fault-free period allows exists: no combination of terms, votes, logs and
    commit indices can wedge the protocol. -/

/-- **From every reachable state the cluster can converge**: there is a continuation after
    which one voter leads a term above all earlier ones, has committed its whole log including
    a new entry of that term, and every voter holds the same log, commit index and term. -/
theorem C15_convergence_possible {cfg : Config} (hnd : cfg.voterIds.Nodup) (hne : cfg.voterIds ≠ []) {s : Repl.AState}
    (hr : Repl.Reachable cfg s) :
    ∃ s' l T, Repl.ReachableFrom cfg s s' ∧ cfg.isVoter l = true ∧ (s'.nodes l).role = .leader ∧ (s'.nodes l).term = T ∧
      (∀ v, cfg.isVoter v = true → (s.nodes v).term < T) ∧
      (s'.nodes l).log = (s.nodes l).log ++ [⟨T, 0⟩] ∧
      (∀ v, cfg.isVoter v = true → (s'.nodes v).log = (s'.nodes l).log ∧
        (s'.nodes v).commit = (s'.nodes l).log.length ∧ (s'.nodes v).term = T) :=
  Repl.progress_possible hnd hne hr

/-- **… within a number of steps that is linear in the number of voters and independent of how far
    behind anyone is.** The continuation of `C15_convergence_possible` has at most `5·|voters| + 4`
    steps (one voter learns a term, times out; the others grant; it becomes leader; one request and
    one answer per other voter carry the whole log, however long; it commits; one empty request and
    one answer per other voter carry the commit index): the statement's "bounded number of election
    timeouts … however far behind, whether it needs log repair or a snapshot of any size", as far as
    a model without timers can say it. -/
theorem C15_convergence_within_linearly_many_steps {cfg : Config} (hnd : cfg.voterIds.Nodup) (hne : cfg.voterIds ≠ [])
    {s : Repl.AState} (hr : Repl.Reachable cfg s) :
    ∃ s' l T k, k ≤ 5 * cfg.voterIds.length + 4 ∧ Repl.ReachableIn cfg s k s' ∧ cfg.isVoter l = true ∧
      (s'.nodes l).role = .leader ∧ (s'.nodes l).term = T ∧
      (∀ v, cfg.isVoter v = true → (s.nodes v).term < T) ∧
      (s'.nodes l).log = (s.nodes l).log ++ [⟨T, 0⟩] ∧
      (∀ v, cfg.isVoter v = true → (s'.nodes v).log = (s'.nodes l).log ∧
        (s'.nodes v).commit = (s'.nodes l).log.length ∧ (s'.nodes v).term = T) :=
  Repl.progress_possible_in hnd hne hr

/-- … and nothing that was applied anywhere is undone on the way (C01 across the continuation):
    every prefix a node had committed before is a prefix of the common log afterwards. -/
theorem C15_convergence_keeps_committed {cfg : Config} (hnd : cfg.voterIds.Nodup) (hne : cfg.voterIds ≠ []) {s : Repl.AState}
    (hr : Repl.Reachable cfg s) :
    ∃ s' l, Repl.ReachableFrom cfg s s' ∧ (s'.nodes l).role = .leader ∧
      (∀ v, cfg.isVoter v = true → (s'.nodes v).log = (s'.nodes l).log ∧ (s'.nodes v).commit = (s'.nodes l).log.length) ∧
      ∀ a, (s.nodes a).log.take (s.nodes a).commit <+: (s'.nodes l).log := by
  obtain ⟨s', l, T, hf, hv, hl, _, hTgt, hlog, hall⟩ := Repl.progress_possible hnd hne hr
  refine ⟨s', l, hf, hl, fun v h => ⟨(hall v h).1, (hall v h).2.1⟩, ?_⟩
  intro a
  have hcl := (hall l hv).2.1
  rcases Repl.state_machine_safety hnd hr hf a l with h | h
  · exact h.trans (List.take_prefix _ _)
  · -- impossible: the common log ends with an entry of the new term T, and nothing committed before has that term
    exfalso
    rw [hcl, List.take_length] at h
    have hi := Repl.inv_reachable hnd hr
    have heT : (⟨T, 0⟩ : Repl.AEntry) ∈ (s.nodes a).log.take (s.nodes a).commit :=
      h.subset (by rw [hlog]; simp)
    rcases (hi.commit_ok a).2 with h0 | ⟨i, t, c0, g0, _, hg0, _, _, _, ⟨Q, hQ, hQa⟩, hp⟩
    · rw [h0] at heT; simp at heT
    · have hQpos : 0 < Q.length := by
        have := hQ.2.2
        unfold Config.hasQuorum at this
        simp only [decide_eq_true_eq] at this
        omega
      obtain ⟨m, hm⟩ := List.exists_mem_of_length_pos hQpos
      obtain ⟨j, _, hack⟩ := hQa m hm
      have ht1 := (hi.ack_ok m j t hack).1
      have ht2 := hTgt m (hQ.2.1 m hm)
      have he : (⟨T, 0⟩ : Repl.AEntry) ∈ g0 := List.mem_of_mem_take (hp.subset heT)
      have := (hi.glog_shape t c0 g0 hg0).1 _ he
      simp only at this
      omega

/-- The same for ANY committed prefix (not only what a node's commit index says right now — a crash
    resets that): whatever was committed in the state the continuation starts from is a prefix of the
    common log at its end. -/
theorem C15_convergence_keeps_all_committed {cfg : Config} (hnd : cfg.voterIds.Nodup) (hne : cfg.voterIds ≠ []) {s : Repl.AState}
    (hr : Repl.Reachable cfg s) :
    ∃ s' l, Repl.ReachableFrom cfg s s' ∧ (s'.nodes l).role = .leader ∧
      (∀ v, cfg.isVoter v = true → (s'.nodes v).log = (s'.nodes l).log ∧ (s'.nodes v).commit = (s'.nodes l).log.length) ∧
      ∀ b P, Repl.IsCommitted cfg s b P → P <+: (s'.nodes l).log := by
  obtain ⟨s', l, T, hf, hv, hl, _, hTgt, hlog, hall⟩ := Repl.progress_possible hnd hne hr
  refine ⟨s', l, hf, hl, fun v h => ⟨(hall v h).1, (hall v h).2.1⟩, ?_⟩
  intro b P hP
  have hcl := (hall l hv).2.1
  have hr' := Repl.reachable_trans hr hf
  have hi' := Repl.inv_reachable hnd hr'
  have hi := Repl.inv_reachable hnd hr
  have hP' := Repl.committed_stable hnd hr hf hP
  have hL := (hi'.commit_ok l).2
  rw [hcl, List.take_length] at hL
  rcases Repl.committed_comparable hnd hr' hP' hL with h | h
  · exact h
  · exfalso
    have heT : (⟨T, 0⟩ : Repl.AEntry) ∈ P := h.subset (by rw [hlog]; simp)
    rcases hP with h0 | ⟨i, t, c0, g0, _, hg0, _, _, _, ⟨Q, hQ, hQa⟩, hp⟩
    · rw [h0] at heT; simp at heT
    · have hQpos : 0 < Q.length := by
        have := hQ.2.2
        unfold Config.hasQuorum at this
        simp only [decide_eq_true_eq] at this
        omega
      obtain ⟨m, hm⟩ := List.exists_mem_of_length_pos hQpos
      obtain ⟨j, _, hack⟩ := hQa m hm
      have ht1 := (hi.ack_ok m j t hack).1
      have ht2 := hTgt m (hQ.2.1 m hm)
      have he : (⟨T, 0⟩ : Repl.AEntry) ∈ g0 := List.mem_of_mem_take (hp.subset heT)
      have := (hi.glog_shape t c0 g0 hg0).1 _ he
      simp only at this
      omega

/-- Non-vacuity: the example run of Proofs/ReplExample.lean (three voters, node 3 behind). -/
example : ∃ s' l T, Repl.ReachableFrom Repl.cfg3 Repl.s7 s' ∧ (s'.nodes l).role = .leader ∧ (s'.nodes l).term = T ∧
    (s'.nodes 3).log = (s'.nodes l).log ∧ (s'.nodes 3).commit = (s'.nodes l).log.length := by
  obtain ⟨s', l, T, hf, _, hl, hT, _, _, hall⟩ := C15_convergence_possible Repl.cfg3_nodup (by decide) Repl.s7_reachable
  exact ⟨s', l, T, hf, hl, hT, (hall 3 (by decide)).1, (hall 3 (by decide)).2.1⟩

end Raft
