/-
  Properties/C16.lean — prevote and stickiness: what outsiders can and cannot do.

  Handler/section level, for every node state: a node in fresh contact with a leader (or
  a leader with a valid lease) ignores vote requests entirely; a node never raises its
  term in the election loop unless it has just won a prevote; a candidate whose election
  was not decided goes back to the prevote (the `fix:` for the stale-candidate defect).
  The interval argument (no disruption while a leader keeps prompt contact with a
  majority) combines these with election safety; its cluster-level tie is E4.
-/
import RaftVerif.Proofs.ElectionLemmas
set_option linter.unusedSimpArgs false
namespace Raft
open Node

/-- **Stickiness.** While the voter heard from a leader less than an election timeout
    ago, or is a leader holding a valid lease, any vote request (real or prevote, any
    term, any log) is refused and changes nothing at all. -/
theorem C16_sticky_refuses (n : Node) (now : Nat) (q : RVReq) (hs : n.role ≠ .shutdown)
    (h : n.contactFresh now = true ∨ n.leaseValid now = true) :
    requestVote n now q = some (n, { term := n.term, granted := false }, []) := by
  unfold requestVote
  simp only [hs, if_false]
  have : (n.leaseValid now || n.contactFresh now) = true := by
    rcases h with h | h <;> simp [h]
  simp [this]

/-- **Only a won prevote raises the term.** One iteration of the election loop leaves the
    term unchanged unless the node is a candidate that has just won a prevote. -/
theorem C16_term_only_after_prevote (n : Node) (now : Nat) (h2 : 2 ≤ n.config.voters)
    (h : ¬ (n.role = .candidate ∧ n.prevoteWon = true)) : (n.election now).1.term = n.term := by
  have hs := not_single_of_two n.config n.id h2
  unfold election
  split
  · rfl
  · rename_i hidle
    simp only
    by_cases hpre : n.role = .follower ∨ (n.role = .candidate ∧ n.prevoteWon = false)
    · simp only [hpre, if_true, reduceCtorEq, if_false]
      unfold sendRVToPeers
      simp [hs]
    · simp only [hpre, if_false]
      have hc : n.role ≠ .candidate := by
        intro hc
        cases hw : n.prevoteWon with
        | true => exact h ⟨hc, hw⟩
        | false => exact hpre (Or.inr ⟨hc, hw⟩)
      simp only [hc, if_false]
      unfold sendRVToPeers
      simp [hs]

/-- **A failed candidacy re-enters the prevote.** A candidate whose election was not
    decided (the flag of the won prevote has been consumed) becomes a pre-candidate again
    and keeps its term and vote, however often its timer fires. -/
theorem C16_failed_candidate_prevotes_again (n : Node) (now : Nat) (h2 : 2 ≤ n.config.voters)
    (hc : n.role = .candidate) (hw : n.prevoteWon = false) (hv : n.config.isVoter n.id = true)
    (hstale : n.contactFresh now = false) :
    (n.election now).1.role = .precandidate ∧ (n.election now).1.term = n.term ∧
    (n.election now).1.votedFor = n.votedFor := by
  have hs := not_single_of_two n.config n.id h2
  unfold election
  have hidle : ¬ (n.role = .leader ∨ n.role = .shutdown ∨ n.config.isVoter n.id = false ∨ n.contactFresh now = true) := by
    simp [hc, hv, hstale]
  simp only [hidle, if_false]
  have hpre : n.role = .follower ∨ (n.role = .candidate ∧ n.prevoteWon = false) := Or.inr ⟨hc, hw⟩
  simp only [hpre, if_true, reduceCtorEq, if_false]
  unfold sendRVToPeers
  simp [hs]

/-- A prevote request carries the next term but the pre-candidate's own term is untouched:
    the reply path can only raise it to a term some node already has. -/
theorem C16_prevote_request_term (n : Node) (peer : Nat) (q : RVReq) (h : n.prepareRV peer true = some q) :
    q.term = n.term + 1 ∧ q.prevote = true := by
  obtain ⟨_, h2, h3, _⟩ := prepareRV_some h
  exact ⟨by simpa using h3, h2⟩

/-! Non-vacuity: a follower that heard from its leader 100 ms ago refuses a vote request of a far higher term. -/
example : requestVote { id := 1, term := 3, lastContact := 900, config := ⟨1, [(1, true), (2, true), (3, true)]⟩ } 1000
    { candidate := 3, term := 99, lastIndex := 50, lastTerm := 98, prevote := false } =
    some ({ id := 1, term := 3, lastContact := 900, config := ⟨1, [(1, true), (2, true), (3, true)]⟩ }, { term := 3, granted := false }, []) := by
  decide

end Raft
