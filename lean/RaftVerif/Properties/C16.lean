/-
  Properties/C16.lean — prevote and stickiness: what outsiders can and cannot do.

  Handler/section level, for every node state: a node in fresh contact with a leader (or
  a leader with a valid lease) ignores vote requests entirely; a node never raises its
  term in the election loop unless it has just won a prevote; a candidate whose election
  was not decided goes back to the prevote (the `fix:` for the stale-candidate defect).
  The interval argument (no disruption while a leader keeps prompt contact with a
  majority) combines these with election safety; its cluster-level tie is E4.
-/
import RaftVerif.Proofs.ElectionLemmas
import RaftVerif.Proofs.Prevote
import RaftVerif.Model.Lifecycle
import RaftVerif.Proofs.ReplExample
set_option linter.unusedSimpArgs false
namespace Raft
open Node

/-- **Stickiness.** While the voter heard from a leader less than an election timeout
    ago, or is a leader holding a valid lease, any vote request (real or prevote, any
    term, any log) is refused and changes nothing at all. -/
theorem C16_sticky_refuses (n : Node) (now : Nat) (q : RVReq) (hs : n.role ≠ .shutdown)
    (h : n.contactFresh now = true ∨ n.leaseValid now = true) :
    requestVote n now q = some (n, { term := n.term, granted := false }, []) := by
  unfold requestVote
  simp only [hs, if_false]
  have : (n.leaseValid now || n.contactFresh now) = true := by
    rcases h with h | h <;> simp [h]
  simp [this]

/-- The guard of the timed model's `grant` step, read off the handler: whoever grants a vote or a
    prevote has not heard from a leader within the election timeout (and holds no valid lease). -/
theorem C16_grant_implies_no_contact {n n' : Node} {now : Nat} {q : RVReq} {r : RVResp} {eff : List Effect}
    (h : requestVote n now q = some (n', r, eff)) (hg : r.granted = true) :
    n.contactFresh now = false ∧ n.leaseValid now = false := by
  by_cases hc : n.contactFresh now = true ∨ n.leaseValid now = true
  · have hs : n.role ≠ .shutdown := by
      intro hsd; unfold requestVote at h; simp [hsd] at h
    rw [C16_sticky_refuses n now q hs hc] at h
    simp only [Option.some.injEq, Prod.mk.injEq] at h
    obtain ⟨_, h2, _⟩ := h
    rw [← h2] at hg
    simp at hg
  · constructor
    · cases hx : n.contactFresh now with
      | false => rfl
      | true => exact absurd (Or.inl hx) hc
    · cases hx : n.leaseValid now with
      | false => rfl
      | true => exact absurd (Or.inr hx) hc

/-- **A node that has just been started counts as in contact**: `Start`/`Restart` set the contact time
    to now, so for one election timeout the node refuses every vote request and does not campaign
    (a restarted voter must not help depose a leader whose request it acknowledged just before it
    went down; the timed models of C16 and C17 rest on this: a crash may only shorten stickiness if
    the restart does not restore it). -/
theorem C16_started_node_is_in_contact (n : Node) (now : Nat) (rf st : Bool) (d : Node.Disk) (hs : n.role = .shutdown)
    (het : 0 < (n.start now rf st d).et) :
    (n.start now rf st d).lastContact = now ∧ (n.start now rf st d).contactFresh now = true := by
  have h1 : (n.start now rf st d).lastContact = now := by
    unfold Node.start
    rw [if_neg (by rw [hs]; simp)]
  refine ⟨h1, ?_⟩
  unfold Node.contactFresh
  rw [h1]
  simp only [decide_eq_true_eq]
  omega

/-- **Only a won prevote raises the term.** One iteration of the election loop leaves the
    term unchanged unless the node is a candidate that has just won a prevote. -/
theorem C16_term_only_after_prevote (n : Node) (now : Nat) (h2 : 2 ≤ n.config.voters)
    (h : ¬ (n.role = .candidate ∧ n.prevoteWon = true)) : (n.election now).1.term = n.term := by
  have hs := not_single_of_two n.config n.id h2
  unfold election
  split
  · rfl
  · rename_i hidle
    simp only
    by_cases hpre : n.role = .follower ∨ (n.role = .candidate ∧ n.prevoteWon = false)
    · simp only [hpre, if_true, reduceCtorEq, if_false]
      unfold sendRVToPeers
      simp [hs]
    · simp only [hpre, if_false]
      have hc : n.role ≠ .candidate := by
        intro hc
        cases hw : n.prevoteWon with
        | true => exact h ⟨hc, hw⟩
        | false => exact hpre (Or.inr ⟨hc, hw⟩)
      simp only [hc, if_false]
      unfold sendRVToPeers
      simp [hs]

/-- **A failed candidacy re-enters the prevote.** A candidate whose election was not
    decided (the flag of the won prevote has been consumed) becomes a pre-candidate again
    and keeps its term and vote, however often its timer fires. -/
theorem C16_failed_candidate_prevotes_again (n : Node) (now : Nat) (h2 : 2 ≤ n.config.voters)
    (hc : n.role = .candidate) (hw : n.prevoteWon = false) (hv : n.config.isVoter n.id = true)
    (hstale : n.contactFresh now = false) :
    (n.election now).1.role = .precandidate ∧ (n.election now).1.term = n.term ∧
    (n.election now).1.votedFor = n.votedFor := by
  have hs := not_single_of_two n.config n.id h2
  unfold election
  have hidle : ¬ (n.role = .leader ∨ n.role = .shutdown ∨ n.config.isVoter n.id = false ∨ n.contactFresh now = true) := by
    simp [hc, hv, hstale]
  simp only [hidle, if_false]
  have hpre : n.role = .follower ∨ (n.role = .candidate ∧ n.prevoteWon = false) := Or.inr ⟨hc, hw⟩
  simp only [hpre, if_true, reduceCtorEq, if_false]
  unfold sendRVToPeers
  simp [hs]

/-- A prevote request carries the next term but the pre-candidate's own term is untouched:
    the reply path can only raise it to a term some node already has. -/
theorem C16_prevote_request_term (n : Node) (peer : Nat) (q : RVReq) (h : n.prepareRV peer true = some q) :
    q.term = n.term + 1 ∧ q.prevote = true := by
  obtain ⟨_, h2, h3, _⟩ := prepareRV_some h
  exact ⟨by simpa using h3, h2⟩

/-! Non-vacuity: a follower that heard from its leader 100 ms ago refuses a vote request of a far higher term. -/
example : requestVote { id := 1, term := 3, lastContact := 900, config := ⟨1, [(1, true), (2, true), (3, true)]⟩ } 1000
    { candidate := 3, term := 99, lastIndex := 50, lastTerm := 98, prevote := false } =
    some ({ id := 1, term := 3, lastContact := 900, config := ⟨1, [(1, true), (2, true), (3, true)]⟩ }, { term := 3, granted := false }, []) := by
  decide

/-! ### Cluster level, with time (Model/Prevote.lean, Proofs/Prevote.lean)

    Terms move only by a candidacy (after prevotes of a quorum in the candidate's current round) or
    by adopting the term of another node. A prevote is granted only by a node that has not accepted
    a leader's request within the election timeout. Any node may start rounds, ask, be granted by
    whoever is not in contact, adopt and crash at any time (isolated and rejoining, restarting,
    removed, campaigning repeatedly: all of it). -/

/-- **No prevote round begun while a quorum is in prompt contact with a leader leads to a
    candidacy**: if a candidacy is enabled for `c` in a run every state of which has the members
    of the quorum `Q` in contact, then `c`'s round began no later than the run (on prevotes
    granted before it). -/
theorem C16_no_candidacy_from_rounds_begun_in_contact {cfg : Config} (hnd : cfg.voterIds.Nodup) {ET : Nat} {Q : List Nat}
    (hQ : Repl.IsQuorum cfg Q) {s0 a : Prevote.PState} (hr : Prevote.PReachable cfg ET s0)
    (hrun : Prevote.RunP cfg ET (Prevote.QContact ET Q) s0 a) (c : Nat) (hnew : s0.now < a.roundStart c) :
    ¬ ∃ Q', Repl.IsQuorum cfg Q' ∧ ∀ m ∈ Q', ∃ τ, a.roundStart c ≤ τ ∧ (c, m, τ) ∈ a.grants := by
  rintro ⟨Q', hQ', hg⟩
  have := Prevote.candidacy_needs_old_round hnd hQ hr hrun c Q' hQ' hg
  omega

/-- **Without a candidacy no term in the cluster grows beyond what was there**: the leader never
    meets a higher term, so it does not step down, and the majority's term does not increase. -/
theorem C16_terms_only_copied {cfg : Config} {ET : Nat} {s0 s : Prevote.PState} (h : Prevote.RunNoCand cfg ET s0 s) :
    ∀ n, ∃ k, s.term n ≤ s0.term k := Prevote.terms_only_copied h

/-- Non-vacuity: nodes 1 and 2 of three accept a leader's request at time 0; 100 ms later node 3
    (isolated) starts a round and grants itself a prevote. Its round can not complete: every
    quorum contains node 1 or node 2, and neither grants while in contact. -/
example : ∃ a : Prevote.PState, Prevote.RunP Repl.cfg3 300 (Prevote.QContact 300 [1, 2])
      { heard := Prevote.setAt (Prevote.setAt (fun _ => none) 1 (some 0)) 2 (some 0) } a ∧
    a.roundStart 3 = 100 ∧ (3, 3, 100) ∈ a.grants ∧
    ¬ ∃ Q', Repl.IsQuorum Repl.cfg3 Q' ∧ ∀ m ∈ Q', ∃ τ, a.roundStart 3 ≤ τ ∧ (3, m, τ) ∈ a.grants := by
  obtain ⟨s0, hs0⟩ : ∃ s0 : Prevote.PState, s0 = { heard := Prevote.setAt (Prevote.setAt (fun _ => none) 1 (some 0)) 2 (some 0) } := ⟨_, rfl⟩
  have hreach : Prevote.PReachable Repl.cfg3 300 s0 := by
    rw [hs0]
    exact Prevote.PReachable.step (Prevote.PReachable.step Prevote.PReachable.base (Prevote.PStep.contact _ 1)) (Prevote.PStep.contact _ 2)
  have hc : ∀ (s : Prevote.PState), s.heard = s0.heard → s.now < 300 → Prevote.QContact 300 [1, 2] s := by
    intro s hh hn m hm
    simp only [List.mem_cons, List.mem_nil_iff, or_false] at hm
    rcases hm with rfl | rfl
    · exact ⟨0, by rw [hh, hs0]; simp [Prevote.setAt], by omega⟩
    · exact ⟨0, by rw [hh, hs0]; simp [Prevote.setAt], by omega⟩
  have r0 : Prevote.RunP Repl.cfg3 300 (Prevote.QContact 300 [1, 2]) s0 s0 := Prevote.RunP.base (hc s0 rfl (by rw [hs0]; decide))
  have r1 := Prevote.RunP.step r0 (Prevote.PStep.tick s0 100) (hc _ rfl (by rw [hs0]; decide))
  have r2 := Prevote.RunP.step r1 (Prevote.PStep.startRound _ 3) (hc _ rfl (by rw [hs0]; decide))
  have hg3 : ¬ Prevote.inContact 300 { s0 with now := s0.now + 100, roundStart := Prevote.setAt s0.roundStart 3 (s0.now + 100) } 3 := by
    rintro ⟨h, hh, _⟩
    rw [hs0] at hh; simp [Prevote.setAt] at hh
  have r3 := Prevote.RunP.step r2 (Prevote.PStep.grant _ 3 3 hg3) (hc _ rfl (by rw [hs0]; decide))
  rw [← hs0]
  refine ⟨_, r3, by rw [hs0]; simp [Prevote.setAt], by rw [hs0]; simp, ?_⟩
  exact C16_no_candidacy_from_rounds_begun_in_contact Repl.cfg3_nodup Repl.quorum12 hreach r3 3 (by rw [hs0]; simp [Prevote.setAt])

end Raft
