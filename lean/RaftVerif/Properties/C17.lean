/-
  Properties/C17.lean — lease-based reads (section level).

  The lease is renewed only by `tryApplyReadOnly`, i.e. when a round of requests of the
  current term has collected replies from a strict majority counted over voters only
  (C05_nonvoter_never_confirms, C05_other_term_reply_ignored), for `leaseDur` from that
  moment; a lease read is answered with data only while the lease is valid at the serve
  section, otherwise with the invalid-lease error. The real-time argument under the
  timing assumption (lease + delay < election timeout, stickiness of the confirming voters:
  C16_sticky_refuses) is tied by E4 walks with the delay bound enforced.
-/
import RaftVerif.Properties.C05
import RaftVerif.Proofs.ReplLeaseExample
set_option linter.unusedSimpArgs false
namespace Raft
open Node

/-- Renewal sets the expiry exactly one lease duration ahead; validity is strict. -/
theorem C17_renew_arithmetic (n : Node) (now seq later : Nat) :
    (n.tryApplyReadOnly now seq).1.leaseValid later = true ↔ later < now + n.leaseDur := by
  unfold tryApplyReadOnly leaseValid
  simp

/-- **A lapsed lease is never served from**: at the serve section a lease read gets data
    only under a valid lease; with a lapsed lease it gets the invalid-lease answer. -/
theorem C17_lapsed_rejected (n : Node) (now t : Nat) (hl : n.leaseValid now = false)
    (h : ReadOut.served t ∈ (n.readOnlyStep now).2) :
    ∃ r ∈ n.pendingReads, r.tag = t ∧ r.lease = false := by
  obtain ⟨_, _, r, hr, ht, _, _, hlease⟩ := C05_served_requires n now t h
  refine ⟨r, hr, ht, ?_⟩
  cases hh : r.lease with
  | false => rfl
  | true => rw [hlease hh] at hl; simp at hl

/-- A new leader starts with a lapsed lease: it must be confirmed before any lease read. -/
theorem C17_new_leader_has_no_lease (n : Node) (now : Nat) (h1 : n.config.isSingle n.id = false) :
    (n.becomeLeader now).1.leaseValid now = false := by
  unfold becomeLeader
  simp only
  have : ∀ (m : Node), m.config.isSingle m.id = false → (m.sendAEToPeers now).1.leaseExpiry = m.leaseExpiry := by
    intro m hm; unfold sendAEToPeers; simp [hm]
  unfold leaseValid
  rw [this _ (by simpa [resetSnapshots] using h1)]
  simp [resetSnapshots]

/-- Stepping down (any path through `becomeFollower`) drops the lease. -/
theorem C17_follower_has_no_lease (n : Node) (now l t : Nat) : (n.becomeFollower now l t).1.leaseValid now = false := by
  unfold becomeFollower leaseValid resetSnapshots
  simp

/-! Non-vacuity: lease of 100 renewed at 1000 is valid at 1099 and lapsed at 1100. -/
example : (({ id := 1, leaseDur := 100 } : Node).tryApplyReadOnly 1000 0).1.leaseValid 1099 = true ∧
          (({ id := 1, leaseDur := 100 } : Node).tryApplyReadOnly 1000 0).1.leaseValid 1100 = false := by decide

/-! ### Cluster level (Proofs/ReplLease.lean) -/

/-- **While a lease is valid there is no leader of a later term.** Timely runs of the timed
    replication-layer model (Model/ReplLease.lean): a node votes only `ET` after it last
    answered a replication request (the stickiness guard), a leader uses an answer only within
    `D` of building the request, the lease runs `LD` from the moment the round reaches its
    quorum; `LD + D ≤ ET`. -/
theorem C17_no_later_leader_under_lease {cfg : Config} (hnd : cfg.voterIds.Nodup) {ET LD D : Nat} (hT : LD + D ≤ ET)
    {l : Repl.LState} (hreach : Repl.LReachable cfg ET LD D l) (ldr : Nat) (hv : Repl.LeaseValid l ldr) :
    ∀ T' c g, l.r.s.glog T' = some (c, g) → T' ≤ (l.r.s.nodes ldr).term :=
  Repl.no_later_leader_under_lease hnd hT hreach ldr hv

/-- **Lease reads are fresh while the timing assumption holds.** A read registered at the lease
    holder and answered under a valid lease, with the read index applied, contains every commit
    made by any leader before the read was registered. -/
theorem C17_lease_read_fresh {cfg : Config} (hnd : cfg.voterIds.Nodup) {ET LD D : Nat} (hT : LD + D ≤ ET)
    {l : Repl.LState} (hreach : Repl.LReachable cfg ET LD D l) (rd : Repl.Read) (a : Nat) (hrd : rd ∈ l.r.reads)
    (hv : Repl.LeaseValid l rd.leader) (hterm : (l.r.s.nodes rd.leader).term = rd.term) (hri : rd.readIndex ≤ a) :
    ∀ e ∈ l.r.commitAt, e.time < rd.time → e.index ≤ a ∧ e.pre <+: (l.r.s.nodes rd.leader).log.take a :=
  Repl.lease_read_fresh hnd hT hreach rd a hrd hv hterm hri

/-- non-vacuity: a timely run (ET = 10, LD = 5, D = 5) reaches a state with a valid lease -/
example : Repl.LReachable Repl.cfg3 10 5 5 Repl.v7 ∧ Repl.LeaseValid Repl.v7 1 :=
  ⟨Repl.v7_reachable, Repl.v7_lease_valid.1⟩

end Raft
