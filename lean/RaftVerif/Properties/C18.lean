/-
  Properties/C18.lean — the public API is total.

  * String tables, REGENERATED from the source (Generated/Tables.lean): every constant of
    `State` and of `OperationType` has a case in its `String` method that returns a literal
    (the `default: panic` is unreachable for values the library itself produces).
  * The future (future.go): a channel of capacity one written by a non-blocking send, read
    with a timeout: `respond` never blocks, only the first answer is kept, `Await` returns
    no later than its timeout.
  * The client-facing sections (submit replicated / read-only, AddServer, RemoveServer, Stop,
    start) never take a `logger.Fatal` path or a run-time panic on well-formed nodes.
  * A membership future is answered successfully by the apply step that applies its entry —
    also when applying it makes the leader step down (self-removal).
  Tie: E5-api (API words on a live cluster), E3-leader (client answers vs the model),
  E3-lifecycle. PARTIAL: "never blocks forever" is a statement about the Go scheduler and the
  mutexes; the model carries the guards and the future, E5 searches for blocked calls.
-/
import RaftVerif.Generated.Tables
import RaftVerif.Properties.C14
set_option linter.unusedSimpArgs false
set_option linter.unusedVariables false
namespace Raft
open Gen Node

/-! ### String tables -/

/-- the case of constant `c` returns a literal -/
def returnsLiteral (cases : List (String × String)) (c : String) : Bool :=
  match cases.lookup c with
  | some s => s != "panic" && s != "other"
  | none => false

theorem C18_state_string_total : ∀ c ∈ stateConsts, returnsLiteral stateStringCases c = true := by decide +kernel

theorem C18_operation_type_string_total :
    ∀ c ∈ operationTypeConsts, returnsLiteral operationTypeStringCases c = true := by decide +kernel

example : stateConsts.length = 5 ∧ operationTypeConsts.length = 3 := by decide +kernel

/-! ### The future -/

structure Fut (α : Type) where
  buf : Option α := none       -- `responseCh`, capacity one
  timeout : Nat

/-- `respond`: `select { case ch <- v: default: }` — never blocks. -/
def Fut.respond {α : Type} (f : Fut α) (v : α) : Fut α :=
  match f.buf with
  | none => { f with buf := some v }
  | some _ => f

/-- `Await` entered at time 0; `arrival` = the time the first `respond` happens (`none`: never).
    Returns the result (`none` = `ErrTimeout`) and the time at which it returns. -/
def Fut.await {α : Type} (f : Fut α) (arrival : Option (Nat × α)) : Option α × Nat :=
  match f.buf with
  | some v => (some v, 0)
  | none =>
    match arrival with
    | some (t, v) => if t < f.timeout then (some v, t) else (none, f.timeout)
    | none => (none, f.timeout)

/-- **Every future resolves by its timeout**, whatever the node does. -/
theorem C18_await_by_timeout {α : Type} (f : Fut α) (arrival : Option (Nat × α)) : (f.await arrival).2 ≤ f.timeout := by
  unfold Fut.await
  cases f.buf with
  | some v => simp
  | none =>
    cases arrival with
    | none => simp
    | some x => obtain ⟨t, v⟩ := x; simp only; split <;> simp <;> omega

/-- **Only the first answer counts**: a second `respond` changes nothing (and does not block:
    `respond` is a total function). -/
theorem C18_respond_once {α : Type} (f : Fut α) (v w : α) : (f.respond v).respond w = f.respond v := by
  cases hb : f.buf <;> simp [Fut.respond, hb]

/-- A second `Await` on the same future, entered `d` time units after the first. `Await` holds
    the future's mutex while it waits (fix S33), so the second caller proceeds when the first has
    returned and finds the cached result: same result; its own waiting time is what was left of the
    first caller's. (Before the fix both callers raced for the channel and for the cache: the loser
    reported a timeout for an operation that had succeeded.) -/
def Fut.awaitSecond {α : Type} (f : Fut α) (arrival : Option (Nat × α)) (d : Nat) : Option α × Nat :=
  ((f.await arrival).1, (f.await arrival).2 - d)

theorem C18_second_awaiter_same_result_by_timeout {α : Type} (f : Fut α) (arrival : Option (Nat × α)) (d : Nat) :
    (f.awaitSecond arrival d).1 = (f.await arrival).1 ∧ (f.awaitSecond arrival d).2 ≤ f.timeout := by
  refine ⟨rfl, ?_⟩
  have := C18_await_by_timeout f arrival
  unfold Fut.awaitSecond
  simp only
  omega

/-! ### Sections behind the API never abort -/

theorem sendAEToPeers_no_fatal (n : Node) (now : Nat) :
    Effect.fatal ∉ (n.sendAEToPeers now).2 ∧ Effect.panic ∉ (n.sendAEToPeers now).2 := by
  unfold sendAEToPeers tryApplyReadOnly
  constructor <;> (split <;> simp <;> try (split <;> simp))

theorem C18_submit_replicated_total (n : Node) (now d : Nat) :
    Effect.fatal ∉ (n.submitReplicated now d).2.1 ∧ Effect.panic ∉ (n.submitReplicated now d).2.1 := by
  unfold submitReplicated
  split
  · simp
  · have h := sendAEToPeers_no_fatal { n with log := n.log.append [{ index := n.log.nextIndex, term := n.term, kind := kOp, data := d }],
                                              pendingRep := n.pendingRep ++ [n.log.nextIndex] } now
    simp only [List.mem_append, List.mem_singleton, reduceCtorEq, false_or]
    exact h

theorem C18_submit_read_only_total (n : Node) (now tag : Nat) (lease : Bool) :
    Effect.fatal ∉ (n.submitReadOnly now tag lease).2.1 ∧ Effect.panic ∉ (n.submitReadOnly now tag lease).2.1 := by
  unfold submitReadOnly
  split
  · simp
  · simp only
    split
    · have h := sendAEToPeers_no_fatal (n.registerRead tag lease).1 now
      constructor
      · simp only [List.mem_append, not_or]; exact ⟨by split <;> simp, h.1⟩
      · simp only [List.mem_append, not_or]; exact ⟨by split <;> simp, h.2⟩
    · constructor <;> (split <;> simp)

/-- `committedThisTerm` is defined whenever the commit index is inside a well-formed log or at
    the snapshot boundary — the only way the membership calls reach `logger.Fatal`. -/
theorem committedThisTerm_isSome (n : Node) (hw : n.log.WF) : n.committedThisTerm.isSome := by
  unfold committedThisTerm
  split
  · rename_i hc
    obtain ⟨e, he⟩ := Option.isSome_iff_exists.mp (Log.get?_isSome_of_contains hc)
    rw [he]; simp
  · simp

theorem C18_add_server_total (n : Node) (now id : Nat) (v : Bool) (hw : n.log.WF) :
    Effect.fatal ∉ (n.addServer now id v).2.1 ∧ Effect.panic ∉ (n.addServer now id v).2.1 := by
  unfold addServer
  split
  · simp
  · obtain ⟨b, hb⟩ := Option.isSome_iff_exists.mp (committedThisTerm_isSome n hw)
    rw [hb]
    cases b with
    | false => simp
    | true =>
      simp only
      split; · simp
      split; · simp
      simp only [List.mem_append, List.mem_singleton, reduceCtorEq, false_or]
      exact sendAEToPeers_no_fatal _ now

theorem C18_remove_server_total (n : Node) (now id : Nat) (hw : n.log.WF) :
    Effect.fatal ∉ (n.removeServer now id).2.1 ∧ Effect.panic ∉ (n.removeServer now id).2.1 := by
  unfold removeServer
  split
  · simp
  · obtain ⟨b, hb⟩ := Option.isSome_iff_exists.mp (committedThisTerm_isSome n hw)
    rw [hb]
    cases b with
    | false => simp
    | true =>
      simp only
      split; · simp
      split; · simp
      simp only [List.mem_append, List.mem_singleton, reduceCtorEq, false_or]
      exact sendAEToPeers_no_fatal _ now

theorem C18_stop_total (n : Node) : Effect.fatal ∉ n.stop.2 ∧ Effect.panic ∉ n.stop.2 := by
  unfold stop resetSnapshots
  split
  · simp
  · constructor <;> (simp only; split <;> simp)

/-! ### The membership future -/

theorem nextConfiguration_cfgFuture (n : Node) (now : Nat) (c : Option Config) :
    (n.nextConfiguration now c).1.cfgFuture = n.cfgFuture := by
  unfold nextConfiguration
  cases c with
  | none => rfl
  | some c =>
    simp only
    split
    · rfl
    · split <;> rfl

theorem applyConfiguration_cfgFuture (n : Node) (now : Nat) (c : Config) :
    (n.applyConfiguration now c).1.cfgFuture = n.cfgFuture := by
  unfold applyConfiguration
  cases n.committed with
  | none => simp only; exact nextConfiguration_cfgFuture n now (some c)
  | some cc =>
    simp only
    split
    · rfl
    · exact nextConfiguration_cfgFuture n now (some c)

/-- **A membership change that is applied while its future is pending answers it with
    success** — whatever applying the configuration does to the node (a leader that removed
    itself steps down in this very step and still answers). -/
theorem C18_membership_future_answered (n : Node) (now : Nat) (e : Entry) (c : Config)
    (hl : n.lastApplied < n.commitIndex) (hs : n.role ≠ .shutdown)
    (hg : n.log.get? (n.lastApplied + 1) = some e) (hk : e.kind = kConfig) (hc : e.cfg = some c)
    (hf : n.cfgFuture = some e.index) :
    (n.applyStep now).2.2 = .config e.index c true ∧ (n.applyStep now).1.cfgFuture = none := by
  unfold applyStep
  rw [if_pos ⟨hl, hs⟩, hg]
  simp only [hk, kConfig, kNoop, hc]
  have h := applyConfiguration_cfgFuture n now c
  simp [h, hf]

end Raft
