/-
  Properties/C19.lean — encodings are lossless (byte level).

  For every record the code stores or sends, decoding the encoding returns the record,
  for all field values below 2^64 (the code's integer width) and payloads shorter than
  2^64 bytes: varints, the length-prefixed records of log.bin/state.bin, the six RPC
  messages. Empty and absent byte strings are the same value here, as in proto3 (the
  property's "equal" is byte-sequence equality). Entry type 2 (configuration) is a plain
  varint on the wire (open enum), so it survives although the proto enum lacks it.
  The tie to protobuf-go is E1: byte-exact agreement of `encode*` with proto.Marshal and of
  `decode*` with proto.Unmarshal on generated values and on every truncation of them.
-/
import RaftVerif.Proofs.Codec
import RaftVerif.Proofs.CodecCfg
import RaftVerif.Proofs.Meta
import RaftVerif.Generated.Tables
set_option linter.unusedSimpArgs false
namespace Raft.Codec
open Raft.Bytes

def U64 (n : Nat) : Prop := n < 2 ^ 64

theorem C19_varint_roundtrip (n : Nat) (rest : Bytes) (h : U64 n) :
    decodeVarint (encodeVarint n ++ rest) = some (n, rest) := decodeVarint_encode n rest h

theorem optV_valid (num v : Nat) (hn : num < 16) (hv : U64 v) : ∀ f ∈ optV num v, f.Valid := by
  intro f hf; unfold optV at hf; split at hf
  · simp at hf
  · simp only [List.mem_singleton] at hf; subst hf; exact ⟨by omega, hv⟩

theorem optB_valid (num : Nat) (v : Bytes) (hn : num < 16) (hv : U64 v.length) : ∀ f ∈ optB num v, f.Valid := by
  intro f hf; unfold optB at hf; split at hf
  · simp at hf
  · simp only [List.mem_singleton] at hf; subst hf; exact ⟨by omega, hv⟩

/-- Log records (log.bin), including the stored offset and all three entry types. -/
theorem C19_log_record_roundtrip (e : SEntry) (h1 : U64 e.index) (h2 : U64 e.term) (h3 : U64 e.offset)
    (h4 : U64 e.data.length) (h5 : U64 e.kind) : decodeLogBody (encodeLogBody e) = some e := by
  unfold decodeLogBody encodeLogBody
  have hv : ∀ f ∈ logFields e, f.Valid := by
    intro f hf
    simp only [logFields, List.mem_append] at hf
    rcases hf with (((hf | hf) | hf) | hf) | hf
    · exact optV_valid 1 _ (by omega) h1 f hf
    · exact optV_valid 2 _ (by omega) h2 f hf
    · exact optV_valid 3 _ (by omega) h3 f hf
    · exact optB_valid 4 _ (by omega) h4 f hf
    · exact optV_valid 5 _ (by omega) h5 f hf
  rw [parseMessage_encode _ hv]
  cases e
  simp only [logFields, optV, optB, Option.map_some, Option.some.injEq]
  split <;> split <;> split <;> split <;> split <;> simp_all [getVarint, getBytes]

/-- Term/vote records (state.bin). -/
theorem C19_state_record_roundtrip (s : SState) (h1 : U64 s.term) (h2 : U64 s.votedFor.length) :
    decodeStateBody (encodeStateBody s) = some s := by
  unfold decodeStateBody encodeStateBody
  have hv : ∀ f ∈ stateFields s, f.Valid := by
    intro f hf
    simp only [stateFields, List.mem_append] at hf
    rcases hf with hf | hf
    · exact optV_valid 1 _ (by omega) h1 f hf
    · exact optB_valid 2 _ (by omega) h2 f hf
  rw [parseMessage_encode _ hv]
  cases s
  simp only [stateFields, optV, optB, Option.map_some, Option.some.injEq]
  split <;> split <;> simp_all [getVarint, getBytes]

/-- The length prefix of a record is read back exactly and delimits the body. -/
theorem C19_frame_roundtrip (body rest : Bytes) (h : body.length < 2 ^ 32) :
    readBe32 (frame body ++ rest) = some (body.length, body ++ rest) := by
  unfold frame; rw [List.append_assoc]; exact readBe32_be32 _ _ h

theorem C19_ae_response_roundtrip (r : WAEResp) (h1 : U64 r.term) (h2 : U64 r.index) :
    decodeAEResp (encodeFields (aeRespFields r)) = some r := by
  unfold decodeAEResp
  have hv : ∀ f ∈ aeRespFields r, f.Valid := by
    intro f hf
    simp only [aeRespFields, List.mem_append] at hf
    rcases hf with (hf | hf) | hf
    · exact optV_valid 1 _ (by omega) h1 f hf
    · exact optV_valid 2 _ (by omega) h2 f hf
    · exact optV_valid 3 _ (by omega) (by unfold U64; split <;> omega) f hf
  rw [parseMessage_encode _ hv]
  cases r with
  | mk term index success =>
    simp only [aeRespFields, optV, Option.map_some, Option.some.injEq]
    cases success <;> (split <;> split <;> simp_all [getVarint])

theorem C19_vote_request_roundtrip (q : WRVReq) (h0 : U64 q.candidate.length) (h1 : U64 q.term)
    (h2 : U64 q.lastIndex) (h3 : U64 q.lastTerm) : decodeRVReq (encodeFields (rvReqFields q)) = some q := by
  unfold decodeRVReq
  have hv : ∀ f ∈ rvReqFields q, f.Valid := by
    intro f hf
    simp only [rvReqFields, List.mem_append] at hf
    rcases hf with (((hf | hf) | hf) | hf) | hf
    · exact optB_valid 1 _ (by omega) h0 f hf
    · exact optV_valid 2 _ (by omega) h1 f hf
    · exact optV_valid 3 _ (by omega) h2 f hf
    · exact optV_valid 4 _ (by omega) h3 f hf
    · exact optV_valid 5 _ (by omega) (by unfold U64; split <;> omega) f hf
  rw [parseMessage_encode _ hv]
  cases q with
  | mk candidate term lastIndex lastTerm prevote =>
    simp only [rvReqFields, optV, optB, Option.map_some, Option.some.injEq]
    cases prevote <;> (split <;> split <;> split <;> split <;> simp_all [getVarint, getBytes])

theorem C19_vote_response_roundtrip (r : WRVResp) (h1 : U64 r.term) :
    decodeRVResp (encodeFields (rvRespFields r)) = some r := by
  unfold decodeRVResp
  have hv : ∀ f ∈ rvRespFields r, f.Valid := by
    intro f hf
    simp only [rvRespFields, List.mem_append] at hf
    rcases hf with hf | hf
    · exact optV_valid 1 _ (by omega) h1 f hf
    · exact optV_valid 2 _ (by omega) (by unfold U64; split <;> omega) f hf
  rw [parseMessage_encode _ hv]
  cases r with
  | mk term granted =>
    simp only [rvRespFields, optV, Option.map_some, Option.some.injEq]
    cases granted <;> (split <;> simp_all [getVarint])

theorem C19_snapshot_request_roundtrip (q : WISReq) (h1 : U64 q.term) (h2 : U64 q.leader.length)
    (h3 : U64 q.lastIndex) (h4 : U64 q.lastTerm) (h5 : U64 q.configuration.length) (h6 : U64 q.offset)
    (h7 : U64 q.data.length) : decodeISReq (encodeFields (isReqFields q)) = some q := by
  unfold decodeISReq
  have hv : ∀ f ∈ isReqFields q, f.Valid := by
    intro f hf
    simp only [isReqFields, List.mem_append] at hf
    rcases hf with ((((((hf | hf) | hf) | hf) | hf) | hf) | hf) | hf
    · exact optV_valid 1 _ (by omega) h1 f hf
    · exact optB_valid 2 _ (by omega) h2 f hf
    · exact optV_valid 3 _ (by omega) h3 f hf
    · exact optV_valid 4 _ (by omega) h4 f hf
    · exact optB_valid 5 _ (by omega) h5 f hf
    · exact optV_valid 6 _ (by omega) h6 f hf
    · exact optB_valid 7 _ (by omega) h7 f hf
    · exact optV_valid 8 _ (by omega) (by unfold U64; split <;> omega) f hf
  rw [parseMessage_encode _ hv]
  cases q with
  | mk term leader lastIndex lastTerm configuration offset data isDone =>
    have e8 : (optV 8 (if isDone = true then 1 else 0)) = optV 8 (if isDone = true then 1 else 0) ++ [] := by simp
    simp only [isReqFields, Option.map_some, Option.some.injEq, getVarint_eq, getBytes_eq, List.append_assoc]
    rw [e8]
    simp only [foldl_vStep_optV, foldl_vStep_optB, foldl_bStep_optV, foldl_bStep_optB, List.foldl_nil]
    cases isDone <;> simp <;> (repeat' constructor) <;> (intro h; simp [h])

theorem C19_snapshot_response_roundtrip (r : WISResp) (h1 : U64 r.term) (h2 : U64 r.bytesWritten) :
    decodeISResp (encodeFields (isRespFields r)) = some r := by
  unfold decodeISResp
  have hv : ∀ f ∈ isRespFields r, f.Valid := by
    intro f hf
    simp only [isRespFields, List.mem_append] at hf
    rcases hf with hf | hf
    · exact optV_valid 1 _ (by omega) h1 f hf
    · exact optV_valid 2 _ (by omega) h2 f hf
  rw [parseMessage_encode _ hv]
  cases r
  simp only [isRespFields, optV, Option.map_some, Option.some.injEq]
  split <;> split <;> simp_all [getVarint]

/-- AppendEntries requests: any number of entries (the repeated embedded message), any payload
    below 2^63 bytes, every entry type. -/
theorem C19_append_request_roundtrip (q : WAEReq) (h : q.Valid) :
    decodeAEReq (encodeFields (aeReqFields q)) = some q := aeReq_roundtrip q h

/-- Configurations (two proto maps and an index): the entries come back exactly as sent, in
    whatever order the sender's map iteration put them on the wire … -/
theorem C19_configuration_roundtrip (c : WCfg) (h : c.Valid) :
    decodeCfg (encodeFields (cfgFields c)) = some c := cfg_roundtrip c h

/-- … hence the decoded maps hold, for every member, exactly its address and its voter flag
    (a Go map has distinct keys). -/
theorem C19_configuration_maps (c : WCfg) (h : c.Valid) (hm : (c.members.map (·.1)).Nodup) (hv : (c.voters.map (·.1)).Nodup) :
    ∃ d, decodeCfg (encodeFields (cfgFields c)) = some d ∧ d.index = c.index ∧
      (∀ kv ∈ c.members, lookupLast d.members kv.1 = some kv.2) ∧
      (∀ kv ∈ c.voters, lookupLast d.voters kv.1 = some kv.2) :=
  ⟨c, cfg_roundtrip c h, rfl, fun kv hkv => lookupLast_of_nodup _ hm kv hkv, fun kv hkv => lookupLast_of_nodup _ hv kv hkv⟩

/-! Non-vacuity: a request with an empty entry, a configuration entry and a payload; a
    configuration with a non-voter and an empty address. -/
def exAE : WAEReq :=
  { leaderId := [49], term := 3, leaderCommit := 0, prevIndex := 2 ^ 64 - 1, prevTerm := 2
    entries := [{ index := 0, term := 0 }, { index := 5, term := 3, kind := 2, data := [0, 255] }] }

example : decodeAEReq (encodeFields (aeReqFields exAE)) = some exAE := by
  apply C19_append_request_roundtrip
  refine ⟨by decide, by decide, by decide, by decide, by decide, ?_⟩
  intro e he
  simp only [exAE, List.mem_cons, List.mem_nil_iff, or_false] at he
  rcases he with rfl | rfl <;> exact ⟨by decide, by decide, by decide, by decide⟩

def exCfg : WCfg := { index := 9, members := [([50], []), ([49], [97, 58, 49])], voters := [([49], true), ([50], false)] }

example : decodeCfg (encodeFields (cfgFields exCfg)) = some exCfg := by
  apply C19_configuration_roundtrip
  refine ⟨by decide, ?_, ?_⟩
  · intro kv h; simp only [exCfg, List.mem_cons, List.mem_nil_iff, or_false] at h
    rcases h with rfl | rfl <;> exact ⟨by decide, by decide⟩
  · intro kv h; simp only [exCfg, List.mem_cons, List.mem_nil_iff, or_false] at h
    rcases h with rfl | rfl <;> decide

/-- The snapshot metadata file (`metadata.json`: decimal numbers, base64 configuration, `null` for
    a nil slice): what is written is what is read. -/
theorem C19_snapshot_metadata_roundtrip (m : Meta.SnapMeta) (h : m.Valid) :
    Meta.decodeMeta (Meta.encodeMeta m) = some m := Meta.decodeMeta_encodeMeta m h

example : Meta.decodeMeta (Meta.encodeMeta ⟨2 ^ 64 - 1, 0, some [0, 255, 16]⟩) = some ⟨2 ^ 64 - 1, 0, some [0, 255, 16]⟩ := by
  apply C19_snapshot_metadata_roundtrip
  refine ⟨by decide, by decide, ?_⟩
  intro c hc b hb
  simp only [Option.some.injEq] at hc
  subst hc
  simp only [List.mem_cons, List.mem_nil_iff, or_false] at hb
  rcases hb with rfl | rfl | rfl <;> decide

/-! Non-vacuity: a configuration entry with maximal index survives. -/
example : decodeLogBody (encodeLogBody { index := 2 ^ 64 - 1, term := 7, offset := 4, data := [1, 2, 255], kind := 2 }) =
    some { index := 2 ^ 64 - 1, term := 7, offset := 4, data := [1, 2, 255], kind := 2 } :=
  C19_log_record_roundtrip _ (by unfold U64; decide) (by unfold U64; decide) (by unfold U64; decide)
    (by unfold U64; decide) (by unfold U64; decide)

/-! ### The wire table of the source is the model's (regenerated on every run)

  `Raft.Gen.pbFields` is read by the extractor from the struct tags of the generated protobuf code
  (`internal/protobuf/raft.pb.go`): message, Go field, wire kind, field number, repeated. The
  model's table is not written down a second time: it is what the model's own field functions
  (`logFields`, `aeReqFields`, … — the functions the round-trip theorems are about) emit for a
  message with every field set, reduced to (wire kind, field number). The two must be the same
  list, message by message, in field-number order. A renumbered, retyped, added or removed field
  in the source breaks this before any byte is compared. -/

def Field.sig : Field → String × Nat
  | .varint n _ => ("varint", n)
  | .bytes n _ => ("bytes", n)

/-- what the model emits for a message with every field set -/
def modelWireTable : List (String × List (String × Nat)) :=
  [ ("LogEntry", (logFields { index := 1, term := 1, offset := 1, data := [1], kind := 1 }).map Field.sig),
    ("AppendEntriesRequest", (aeReqFields { leaderId := [1], term := 1, leaderCommit := 1, prevIndex := 1, prevTerm := 1,
                                            entries := [{ index := 1, term := 1, data := [1], kind := 1 }] }).map Field.sig),
    ("AppendEntriesResponse", (aeRespFields { term := 1, index := 1, success := true }).map Field.sig),
    ("RequestVoteRequest", (rvReqFields { candidate := [1], term := 1, lastIndex := 1, lastTerm := 1, prevote := true }).map Field.sig),
    ("RequestVoteResponse", (rvRespFields { term := 1, granted := true }).map Field.sig),
    ("InstallSnapshotRequest", (isReqFields { term := 1, leader := [1], lastIndex := 1, lastTerm := 1, configuration := [1],
                                              offset := 1, data := [1], isDone := true }).map Field.sig),
    ("InstallSnapshotResponse", (isRespFields { term := 1, bytesWritten := 1 }).map Field.sig),
    ("StorageState", (stateFields { term := 1, votedFor := [1] }).map Field.sig),
    ("Configuration", (cfgFields { members := [([1], [1])], voters := [([1], true)], index := 1 }).map Field.sig) ]

/-- what the source declares, per message, in declaration order -/
def sourceWireTable (msg : String) : List (String × Nat) :=
  (Raft.Gen.pbFields.filter (fun r => r.1 == msg)).map (fun r => (r.2.2.1, r.2.2.2.1))

theorem C19_wire_table_of_the_source_is_the_models :
    (∀ m ∈ modelWireTable, sourceWireTable m.1 = m.2) ∧
    (∀ r ∈ Raft.Gen.pbFields, (modelWireTable.map (·.1)).contains r.1 = true) := by decide +kernel

/-- the wire form of a log entry (`wentryFields`) uses the storage entry's numbers, without the offset -/
example : (wentryFields { index := 1, term := 1, data := [1], kind := 1 }).map Field.sig =
    ((logFields { index := 1, term := 1, offset := 1, data := [1], kind := 1 }).map Field.sig).filter (fun x => x.2 != 3) := by decide

end Raft.Codec
