/-
  Properties/C20.lean — lock discipline of the node, over the skeleton REGENERATED from the
  source on every run (Generated/Tables.lean, by harness/cmd/extract: a flow-sensitive walk of
  every method of *Raft that derives, for each access to a field of the node, whether the node
  mutex is held there).

  Proved here, by evaluation of the whole table in the kernel:
  * every access to a field outside a short list of components is made with the mutex held;
  * the components on that list are never assigned after `NewRaft` (immutable configuration,
    or objects that synchronise themselves: logger, wait group, condition variables, the two
    mutexes; and the user-supplied transport and state machine, whose concurrency contract is
    the interface's);
  * the walk determined the lock state everywhere (no anomaly, every method reached);
  * the fields of a log entry that requests in flight read without the mutex are never
    assigned after the entry was created.
  Proofs/Lockset.lean turns the first item into the absence of a race between any two such
  accesses (release→acquire ordering).

  PARTIAL: objects reached through a local alias (a `*follower`, a `*LogEntry`, the operation
  manager's maps) are covered only as far as the alias is used in the locked region the walk
  sees; the storages' own internals, the transport and what the state machine does are outside.
  The search for a concrete racing schedule is E6 (race detector on stress runs).
-/
import RaftVerif.Generated.Tables
import RaftVerif.Proofs.Lockset
namespace Raft
open Gen

/-- may be used without the node mutex -/
def unguardedOK : List String :=
  ["id", "address", "options", "logger", "transport", "fsm", "applyCond", "commitCond", "readOnlyCond",
   "electionCond", "snapshotCond", "wg", "mu", "lifecycleMu"]

/-- **Every access to protocol state holds the node mutex.** -/
theorem C20_every_guarded_access_holds_the_mutex :
    ∀ a ∈ accesses, a.held = false → a.field ∈ unguardedOK := by decide +kernel

/-- **What is used without the mutex is never assigned after construction.** -/
theorem C20_unguarded_never_assigned :
    ∀ a ∈ accesses, a.field ∈ unguardedOK → a.kind ≠ 2 := by decide +kernel

/-- **The walk is complete**: the lock state was determined at every statement of every method,
    and every method is reached from an exported method or a `go` statement. -/
theorem C20_walk_complete : lockAnomalies = [] ∧ unreached = [] := by decide +kernel

/-- **Entries shared with requests in flight are immutable where they are read**: the
    converters of requests.go / transport.go read no field that is assigned after creation. -/
theorem C20_entries_in_flight_immutable :
    ∀ f ∈ entryFieldsReadUnlocked, f ∉ entryFieldsWritten := by decide +kernel

/-- **No race between two accesses under the mutex** (from Proofs/Lockset.lean): in any
    well-locked trace, an access by `t1` under the mutex and a later access by `t2 ≠ t1`
    under the mutex are separated by `rel t1 … acq t2`. -/
theorem C20_locked_accesses_ordered (earlier later : List Lockset.Ev) (t1 t2 : Nat) (hne : t1 ≠ t2)
    (h1 : Lockset.holder earlier = some t1) (hw : Lockset.WellLocked (later ++ earlier))
    (h2 : Lockset.holder (later ++ earlier) = some t2) :
    ∃ l1 l2 l3, later = l1 ++ [Lockset.Ev.acq t2] ++ l2 ++ [Lockset.Ev.rel t1] ++ l3 :=
  Lockset.release_acquire_between earlier t1 t2 hne h1 later hw h2

/-- non-vacuity: the table is not empty and contains both locked accesses and exempt ones -/
example : accesses.length > 100 ∧ (accesses.filter (·.held)).length > 100 ∧ (accesses.filter (fun a => !a.held)).length > 5 := by
  decide +kernel

end Raft
